//! C10 — kernels never index out of bounds and initialise every output slot exactly once.
//!
//! Instruments:
//!  * `Logged<T, N>`: an output container (implements `GetLen`, `TIter`, `Vec1View`, `Vec1`) whose `Uninit` /
//!    `UninitRefMut` types keep a write log `written: [u8; N]`. `uset(i, v)` records an out-of-range index and a
//!    second write instead of performing them; `assume_init` (and the collecting constructors) hand the log on to
//!    the finished container. The harness then asserts, with a message naming the entry point:
//!    "output index in bounds", "slot written once", "every output slot written before assume_init".
//!  * input `Vec<T>` / `Array1<T>`: Kani's pointer checks see every `get_unchecked` / `uget` of the fast paths;
//!  * input `util::DefView`: the default driver bodies run and `uget` / `uslice` are bounds-checked, so an
//!    index >= len handed to an unchecked accessor is a panic.
//!
//! Layer 1 (`c10_drv_*`, `c10_w0_*`, `c10_short2_*`, `c10_panic_w0_*`): the six rolling drivers with an arbitrary
//! callback, returned path (`O = Logged`) and caller-buffer path (`Some(out)` over a `Logged` buffer).
//! Layer 2 (`c10_cmp_*`, `c10_minmaxnorm_*`, `c10_resid_*`, `c10_vrank_*`, `c10_quantile_*`, `c10_argpartition_*`,
//! `c10_vpartition_*`, `c10_empty_*`): the kernels that index the input themselves. The harness table with the
//! measured cost decisions is in /verif/tools/gen_c10.py.
//!
//! Degenerate regions where the pinned tree *panics cleanly* are acceptable for C10 ("either a fully defined
//! result or a clean panic"); they are excluded from the main harnesses by `kani::assume` and witnessed by
//! `#[kani::should_panic]` harnesses (`c10_panic_*`, `c10_vrank_empty`) that use plain `Vec` outputs, so the only
//! panic they can see is tevec's own. Genuine defects (window 0 on the `_to` bodies / fast paths, a shorter second
//! series) are isolated in `c10_w0_*` / `c10_short2_*`.
use std::collections::VecDeque;
use std::mem::MaybeUninit;
use std::sync::Arc;

use ndarray::{Array1, ArrayView1, s};
use tea_agg::{QuantileMethod, VecAggValidExt};
use tea_core::prelude::*;
use tea_map::MapValidVec;
use tea_rolling::{RollingValidCmp, RollingValidNorm, RollingValidRegBinary};

use crate::util::*;

// ---------------------------------------------------------------------------------------------
// Logged output container
// ---------------------------------------------------------------------------------------------

#[derive(Clone, Copy)]
pub struct WLog<const N: usize> {
    /// number of writes per slot (saturating)
    pub written: [u8; N],
    /// some write used an index >= len
    pub oob: bool,
    /// some slot was written a second time
    pub twice: bool,
    /// the length the buffer was created with (`uninit(len)`, or the number of collected items)
    pub len_req: usize,
}

impl<const N: usize> WLog<N> {
    pub fn new(len: usize) -> Self {
        WLog { written: [0; N], oob: false, twice: false, len_req: len }
    }

    /// records a write to `idx`; true when the value may be stored
    pub fn note(&mut self, idx: usize) -> bool {
        if idx >= N || idx >= self.len_req {
            self.oob = true;
            false
        } else {
            if self.written[idx] != 0 {
                self.twice = true;
            }
            if self.written[idx] < 255 {
                self.written[idx] += 1;
            }
            true
        }
    }

    /// (has the input length, every index in bounds, no slot written twice, every slot written)
    pub fn verdict(&self) -> (bool, bool, bool, bool) {
        let mut all = true;
        let mut i = 0;
        while i < N {
            if i < self.len_req && self.written[i] == 0 {
                all = false;
            }
            i += 1;
        }
        (self.len_req == N, !self.oob, !self.twice, all)
    }
}

pub struct Logged<T, const N: usize> {
    pub data: [T; N],
    pub log: WLog<N>,
}

pub struct LoggedUninit<T, const N: usize> {
    pub data: [T; N],
    pub log: WLog<N>,
}

pub trait OutElem: Copy + Default {}
impl<T: Copy + Default> OutElem for T {}

impl<T, const N: usize> GetLen for Logged<T, N> {
    fn len(&self) -> usize {
        self.log.len_req
    }
}

impl<T, const N: usize> GetLen for LoggedUninit<T, N> {
    fn len(&self) -> usize {
        self.log.len_req
    }
}

impl<T: OutElem, const N: usize> TIter<T> for Logged<T, N> {
    fn titer(&self) -> impl TIterator<Item = T> + '_ {
        self.data.iter().cloned()
    }
}

impl<T: OutElem, const N: usize> Vec1View<T> for Logged<T, N> {
    type SliceOutput<'a>
        = &'a [T]
    where
        Self: 'a,
        T: 'a;

    fn get_backend_name(&self) -> &'static str {
        "logged"
    }

    unsafe fn uget(&self, index: usize) -> T {
        self.data[index]
    }
}

impl<T: OutElem, const N: usize> Vec1<T> for Logged<T, N> {
    type Uninit = LoggedUninit<T, N>;
    type UninitRefMut<'a>
        = &'a mut LoggedUninit<T, N>
    where
        T: 'a;

    /// collecting constructor (default driver bodies, `full`, `empty`): item k goes to slot k
    fn collect_from_iter<I: Iterator<Item = T>>(iter: I) -> Self {
        let mut data = [T::default(); N];
        let mut log = WLog::<N>::new(N);
        let mut k = 0usize;
        for v in iter {
            if log.note(k) {
                data[k] = v;
            }
            k += 1;
        }
        log.len_req = k;
        Logged { data, log }
    }

    fn uninit(len: usize) -> Self::Uninit {
        LoggedUninit { data: [T::default(); N], log: WLog::new(len) }
    }

    fn uninit_ref_mut(uninit_vec: &mut Self::Uninit) -> Self::UninitRefMut<'_> {
        uninit_vec
    }
}

impl<T: OutElem, const N: usize> UninitVec<T> for LoggedUninit<T, N> {
    type Vec = Logged<T, N>;

    unsafe fn assume_init(self) -> Self::Vec {
        Logged { data: self.data, log: self.log }
    }

    unsafe fn uset(&mut self, idx: usize, v: T) {
        if self.log.note(idx) {
            self.data[idx] = v;
        }
    }
}

impl<T: OutElem, const N: usize> UninitRefMut<T> for &mut LoggedUninit<T, N> {
    unsafe fn uset(&mut self, idx: usize, v: T) {
        if self.log.note(idx) {
            self.data[idx] = v;
        }
    }
}

/// the three log assertions (plus the length) with caller-chosen messages: distinct failure keys per entry point
macro_rules! verdict {
    ($o:expr, $len:literal, $ib:literal, $once:literal, $all:literal) => {{
        let (len_ok, ib, once, all) = $o.log.verdict();
        assert!(len_ok, $len);
        assert!(ib, $ib);
        assert!(once, $once);
        assert!(all, $all);
    }};
}

type L<const N: usize> = Logged<u8, N>;

fn out_buf<const N: usize>() -> LoggedUninit<u8, N> {
    <L<N> as Vec1<u8>>::uninit(N)
}

/// reads every element of a window object (so that Kani's pointer checks see the slice handed out by the driver)
pub fn touch<T: Copy, W: Win<T>>(s: &W) -> usize {
    let n = s.wlen();
    let mut j = 0;
    while j < n {
        let _ = s.wget(j);
        j += 1;
    }
    n
}

// ---------------------------------------------------------------------------------------------
// Layer 1: drivers with an arbitrary callback. One function per (driver, path): the messages name them.
// ---------------------------------------------------------------------------------------------

pub fn apply_ret<T: Clone, V: Vec1View<T> + ?Sized, const N: usize>(v: &V, w: usize) {
    let o: L<N> = v.rolling_apply(w, |_rm, _x| kani::any::<u8>(), None).unwrap();
    verdict!(o, "rolling_apply returned: output has the input length", "rolling_apply returned: output index in bounds",
             "rolling_apply returned: slot written once", "rolling_apply returned: every output slot written before assume_init");
}

pub fn apply_out<T: Clone, V: Vec1View<T> + ?Sized, const N: usize>(v: &V, w: usize) {
    let mut buf = out_buf::<N>();
    let r = v.rolling_apply::<L<N>, _, _>(w, |_rm, _x| kani::any::<u8>(), Some(&mut buf));
    assert!(r.is_none(), "rolling_apply out: nothing returned");
    let o = unsafe { buf.assume_init() };
    verdict!(o, "rolling_apply out: buffer keeps its length", "rolling_apply out: output index in bounds",
             "rolling_apply out: slot written once", "rolling_apply out: every output slot written before assume_init");
}

pub fn idx_ret<T: Clone, V: Vec1View<T> + ?Sized, const N: usize>(v: &V, w: usize) {
    let o: L<N> = v.rolling_apply_idx(w, |_s, _e, _x| kani::any::<u8>(), None).unwrap();
    verdict!(o, "rolling_apply_idx returned: output has the input length", "rolling_apply_idx returned: output index in bounds",
             "rolling_apply_idx returned: slot written once", "rolling_apply_idx returned: every output slot written before assume_init");
}

pub fn idx_out<T: Clone, V: Vec1View<T> + ?Sized, const N: usize>(v: &V, w: usize) {
    let mut buf = out_buf::<N>();
    let r = v.rolling_apply_idx::<L<N>, _, _>(w, |_s, _e, _x| kani::any::<u8>(), Some(&mut buf));
    assert!(r.is_none(), "rolling_apply_idx out: nothing returned");
    let o = unsafe { buf.assume_init() };
    verdict!(o, "rolling_apply_idx out: buffer keeps its length", "rolling_apply_idx out: output index in bounds",
             "rolling_apply_idx out: slot written once", "rolling_apply_idx out: every output slot written before assume_init");
}

pub fn apply2_ret<T: Clone, V: Vec1View<T> + ?Sized, V2: Vec1View<T>, const N: usize>(v: &V, v2: &V2, w: usize) {
    let o: L<N> = v.rolling2_apply(v2, w, |_rm, _x| kani::any::<u8>(), None).unwrap();
    verdict!(o, "rolling2_apply returned: output has the input length", "rolling2_apply returned: output index in bounds",
             "rolling2_apply returned: slot written once", "rolling2_apply returned: every output slot written before assume_init");
}

pub fn apply2_out<T: Clone, V: Vec1View<T> + ?Sized, V2: Vec1View<T>, const N: usize>(v: &V, v2: &V2, w: usize) {
    let mut buf = out_buf::<N>();
    let r = v.rolling2_apply::<L<N>, _, _, _, _>(v2, w, |_rm, _x| kani::any::<u8>(), Some(&mut buf));
    assert!(r.is_none(), "rolling2_apply out: nothing returned");
    let o = unsafe { buf.assume_init() };
    verdict!(o, "rolling2_apply out: buffer keeps its length", "rolling2_apply out: output index in bounds",
             "rolling2_apply out: slot written once", "rolling2_apply out: every output slot written before assume_init");
}

pub fn idx2_ret<T: Clone, V: Vec1View<T> + ?Sized, V2: Vec1View<T>, const N: usize>(v: &V, v2: &V2, w: usize) {
    let o: L<N> = v.rolling2_apply_idx(v2, w, |_s, _e, _x| kani::any::<u8>(), None).unwrap();
    verdict!(o, "rolling2_apply_idx returned: output has the input length", "rolling2_apply_idx returned: output index in bounds",
             "rolling2_apply_idx returned: slot written once", "rolling2_apply_idx returned: every output slot written before assume_init");
}

pub fn idx2_out<T: Clone, V: Vec1View<T> + ?Sized, V2: Vec1View<T>, const N: usize>(v: &V, v2: &V2, w: usize) {
    let mut buf = out_buf::<N>();
    let r = v.rolling2_apply_idx::<L<N>, _, _, _, _>(v2, w, |_s, _e, _x| kani::any::<u8>(), Some(&mut buf));
    assert!(r.is_none(), "rolling2_apply_idx out: nothing returned");
    let o = unsafe { buf.assume_init() };
    verdict!(o, "rolling2_apply_idx out: buffer keeps its length", "rolling2_apply_idx out: output index in bounds",
             "rolling2_apply_idx out: slot written once", "rolling2_apply_idx out: every output slot written before assume_init");
}

// slice forms: macros, because the window type is a GAT of the backend
macro_rules! custom_ret {
    ($v:expr, $w:expr, $N:expr) => {{
        let o: L<$N> = $v.rolling_custom($w, |s| { touch(&s); kani::any::<u8>() }, None).unwrap();
        verdict!(o, "rolling_custom returned: output has the input length", "rolling_custom returned: output index in bounds",
                 "rolling_custom returned: slot written once", "rolling_custom returned: every output slot written before assume_init");
    }};
}
macro_rules! custom_out {
    ($v:expr, $w:expr, $N:expr) => {{
        let mut buf = out_buf::<$N>();
        let r = $v.rolling_custom::<L<$N>, _, _>($w, |s| { touch(&s); kani::any::<u8>() }, Some(&mut buf));
        assert!(r.is_none(), "rolling_custom out: nothing returned");
        let o = unsafe { buf.assume_init() };
        verdict!(o, "rolling_custom out: buffer keeps its length", "rolling_custom out: output index in bounds",
                 "rolling_custom out: slot written once", "rolling_custom out: every output slot written before assume_init");
    }};
}
macro_rules! custom2_ret {
    ($v:expr, $v2:expr, $w:expr, $N:expr) => {{
        let o: L<$N> = $v.rolling2_custom($v2, $w, |s, t| { touch(&s); touch(&t); kani::any::<u8>() }, None).unwrap();
        verdict!(o, "rolling2_custom returned: output has the input length", "rolling2_custom returned: output index in bounds",
                 "rolling2_custom returned: slot written once", "rolling2_custom returned: every output slot written before assume_init");
    }};
}
macro_rules! custom2_out {
    ($v:expr, $v2:expr, $w:expr, $N:expr) => {{
        let mut buf = out_buf::<$N>();
        let r = $v.rolling2_custom::<L<$N>, _, _, _, _>($v2, $w, |s, t| { touch(&s); touch(&t); kani::any::<u8>() }, Some(&mut buf));
        assert!(r.is_none(), "rolling2_custom out: nothing returned");
        let o = unsafe { buf.assume_init() };
        verdict!(o, "rolling2_custom out: buffer keeps its length", "rolling2_custom out: output index in bounds",
                 "rolling2_custom out: slot written once", "rolling2_custom out: every output slot written before assume_init");
    }};
}

/// window in lo..=N+3
pub fn any_window<const N: usize>(lo: usize) -> usize {
    let w: usize = kani::any();
    kani::assume(w >= lo && w <= N + 3);
    w
}

/// min_periods: None or Some(0..=N+3)
pub fn any_mp<const N: usize>() -> Option<usize> {
    let m: usize = kani::any();
    kani::assume(m <= N + 3);
    if kani::any() { Some(m) } else { None }
}

// ---------------------------------------------------------------------------------------------
// Layer 2: kernels that index the input themselves. Output container is `Logged<f64, N>` so that the write log
// is checked on the way; V is Vec (pointer checks) or DefView (checked uget).
// ---------------------------------------------------------------------------------------------

type LF<const N: usize> = Logged<f64, N>;

macro_rules! kernel_verdict {
    ($o:expr, $len:literal, $all:literal) => {{
        let (len_ok, ib, once, all) = $o.log.verdict();
        assert!(len_ok, $len);
        assert!(ib, "kernel output index in bounds");
        assert!(once, "kernel output slot written once");
        assert!(all, $all);
    }};
}

pub fn k_vmin<V: Vec1View<Option<i32>>, const N: usize>(v: &V, w: usize, mp: Option<usize>) {
    let o: LF<N> = v.ts_vmin(w, mp);
    kernel_verdict!(o, "ts_vmin: output length == N", "ts_vmin: every output slot written");
}
pub fn k_vmax<V: Vec1View<Option<i32>>, const N: usize>(v: &V, w: usize, mp: Option<usize>) {
    let o: LF<N> = v.ts_vmax(w, mp);
    kernel_verdict!(o, "ts_vmax: output length == N", "ts_vmax: every output slot written");
}
pub fn k_vargmin<V: Vec1View<Option<i32>>, const N: usize>(v: &V, w: usize, mp: Option<usize>) {
    let o: LF<N> = v.ts_vargmin(w, mp);
    kernel_verdict!(o, "ts_vargmin: output length == N", "ts_vargmin: every output slot written");
}
pub fn k_vargmax<V: Vec1View<Option<i32>>, const N: usize>(v: &V, w: usize, mp: Option<usize>) {
    let o: LF<N> = v.ts_vargmax(w, mp);
    kernel_verdict!(o, "ts_vargmax: output length == N", "ts_vargmax: every output slot written");
}
pub fn k_tsrank<V: Vec1View<Option<i32>>, const N: usize>(v: &V, w: usize, mp: Option<usize>) {
    let o: LF<N> = v.ts_vrank(w, mp, kani::any(), kani::any());
    kernel_verdict!(o, "ts_vrank: output length == N", "ts_vrank: every output slot written");
}
pub fn k_minmaxnorm<V: Vec1View<Option<i32>>, const N: usize>(v: &V, w: usize, mp: Option<usize>) {
    let o: LF<N> = v.ts_vminmaxnorm(w, mp);
    kernel_verdict!(o, "ts_vminmaxnorm: output length == N", "ts_vminmaxnorm: every output slot written");
}
pub fn k_resid_mean<V: Vec1View<f64>, V2: Vec1View<f64>, const N: usize>(v: &V, v2: &V2, w: usize, mp: Option<usize>) {
    let o: LF<N> = v.ts_vregx_resid_mean(v2, w, mp);
    kernel_verdict!(o, "ts_vregx_resid_mean: output length == N", "ts_vregx_resid_mean: every output slot written");
}
pub fn k_resid_std<V: Vec1View<f64>, V2: Vec1View<f64>, const N: usize>(v: &V, v2: &V2, w: usize, mp: Option<usize>) {
    let o: LF<N> = v.ts_vregx_resid_std(v2, w, mp);
    kernel_verdict!(o, "ts_vregx_resid_std: output length == N", "ts_vregx_resid_std: every output slot written");
}
pub fn k_resid_skew<V: Vec1View<f64>, V2: Vec1View<f64>, const N: usize>(v: &V, v2: &V2, w: usize, mp: Option<usize>) {
    let o: LF<N> = v.ts_vregx_resid_skew(v2, w, mp);
    kernel_verdict!(o, "ts_vregx_resid_skew: output length == N", "ts_vregx_resid_skew: every output slot written");
}
pub fn k_vrank<V: Vec1View<Option<i32>>, const N: usize>(v: &V) {
    let o: LF<N> = v.vrank(kani::any(), kani::any());
    kernel_verdict!(o, "vrank: output length == N", "vrank: every output slot written");
}
/// vpartition / varg_partition with *concrete* (k, sort, rev) per call: a symbolic choice makes the dynamic type behind
/// the returned `Box<dyn TrustedLen>` symbolic and every `next()` expands into all pipelines (measured in C12:
/// 150-400 s instead of 25 s). At most k+2 reads; the box is not dropped (virtual drop over every candidate).
/// Every index yielded by varg_partition must be -1 or < N, and the iterator yields exactly its announced trusted length
/// (what the collectors size and expose their buffer from); that the length is k+1 is C09 / C12 business.
pub fn k_argpartition<V: Vec1View<Option<i32>>, const N: usize>(v: &V, k: usize, sort: bool, rev: bool) {
    let mut it = v.varg_partition(k, sort, rev);
    let announced = TrustedLen::len(&it);
    let mut c = 0;
    while c < k + 2 {
        match it.next() {
            Some(i) => assert!(i == -1 || (i >= 0 && (i as usize) < N), "varg_partition yields -1 or an index below len"),
            None => break,
        }
        c += 1;
    }
    assert!(c <= k + 1, "varg_partition yields at most k+1 entries");
    assert!(c == announced, "varg_partition yields exactly as many entries as its trusted length announces (every collected slot is written)");
    std::mem::forget(it);
}
pub fn k_vpartition<V: Vec1View<Option<i32>>, const N: usize>(v: &V, k: usize, sort: bool, rev: bool) {
    let mut it = v.vpartition(k, sort, rev);
    // trusted collectors allocate `len()` slots, write what the iterator yields and expose all of them as initialised
    let announced = TrustedLen::len(&it);
    let mut c = 0;
    while c < k + 2 {
        if it.next().is_none() {
            break;
        }
        c += 1;
    }
    assert!(c <= k + 1, "vpartition yields at most k+1 entries");
    assert!(c == announced, "vpartition yields exactly as many entries as its trusted length announces (every collected slot is written)");
    std::mem::forget(it);
}
pub fn k_quantile<V: Vec1View<Option<i32>>, const N: usize>(v: &V) {
    let qi: u8 = kani::any();
    kani::assume(qi < 6);
    let q = [0.0, 0.25, 0.5, 0.75, 1.0, 1.5][qi as usize];
    let m: u8 = kani::any();
    kani::assume(m < 4);
    let method = match m {
        0 => QuantileMethod::Linear,
        1 => QuantileMethod::Lower,
        2 => QuantileMethod::Higher,
        _ => QuantileMethod::MidPoint,
    };
    let r = v.vquantile(q, method);
    let is_err = r.is_err();
    std::mem::forget(r); // no TError drop glue under CBMC
    assert!(is_err == (qi == 5), "vquantile errs exactly for q outside 0..=1");
}

/// Option<i32> data: unconstrained null mask, values in -3..=3 when `small` (ties; no i32 overflow in differences)
pub fn opt_data<const N: usize>(small: bool) -> [Option<i32>; N] {
    let x: [Option<i32>; N] = kani::any();
    if small {
        let mut i = 0;
        while i < N {
            if let Some(v) = x[i] {
                kani::assume(v >= -3 && v <= 3);
            }
            i += 1;
        }
    }
    x
}

/// f64 data from small integers with a symbolic NaN mask
pub fn f64_data<const N: usize>() -> [f64; N] {
    let mut x = [0.0; N];
    let mut i = 0;
    while i < N {
        x[i] = small_f64_or_nan(-3, 3);
        i += 1;
    }
    x
}

/// f64 data with *fixed* distinct values and a symbolic NaN mask. The regression kernels never let a value
/// influence an index (indices come from the driver's start/end; data only gates on nullness through
/// `n >= min_periods`), and symbolic f64 values make CBMC build and solve full-width float dividers / sqrt.
pub fn f64_fixed<const N: usize>(mul: usize) -> [f64; N] {
    let mut x = [0.0; N];
    let mut i = 0;
    while i < N {
        x[i] = if kani::any() { f64::NAN } else { (i * mul + 1) as f64 };
        i += 1;
    }
    x
}

/// f64 data with fixed values and a *concrete* NaN mask (bit i of `mask` set = element i is NaN): every float
/// operation of the regression kernels then constant-folds during symbolic execution; harnesses enumerate the masks.
pub fn f64_masked<const N: usize>(mul: usize, mask: usize) -> [f64; N] {
    let mut x = [0.0; N];
    let mut i = 0;
    while i < N {
        x[i] = if (mask >> i) & 1 == 1 { f64::NAN } else { (i * mul + 1) as f64 };
        i += 1;
    }
    x
}

pub fn cmp_all<V: Vec1View<Option<i32>>, const N: usize>(v: &V, wlo: usize) {
    let (w, mp) = (any_window::<N>(wlo), any_mp::<N>());
    k_vmin::<V, N>(v, w, mp);
    k_vmax::<V, N>(v, w, mp);
    k_vargmin::<V, N>(v, w, mp);
    k_vargmax::<V, N>(v, w, mp);
}

pub fn num_all<V: Vec1View<f64>, V2: Vec1View<f64>, const N: usize>(a: &V, b: &V2, wlo: usize) {
    let (w, mp) = (any_window::<N>(wlo), any_mp::<N>());
    k_resid_mean::<V, V2, N>(a, b, w, mp);
    k_resid_std::<V, V2, N>(a, b, w, mp);
    k_resid_skew::<V, V2, N>(a, b, w, mp);
}

/// caller-supplied ndarray out buffer that is NOT contiguous (every second slot of a larger array, sentinel-filled): the
/// driver writes exactly the slots of the view, each once — every view slot holds the value the returned path gives, the slots
/// in between keep the sentinel (added after seeded change C10-m4; the instrumented container of the other harnesses cannot see
/// a defect of the real ndarray out container)
pub fn out_nd_strided<const N: usize, const M: usize>() {
    let xs: [i32; N] = kani::any();
    let v: Vec<i32> = xs.to_vec();
    let w = any_window::<N>(1);
    let ret: Vec<(Option<i32>, i32)> = v.rolling_apply(w, |rm, x| (rm, x), None).unwrap();
    let mut big: Array1<MaybeUninit<(Option<i32>, i32)>> = Array1::from_elem(M, MaybeUninit::new((None, -77)));
    {
        let view = big.slice_mut(s![..;2]);
        let r = v.rolling_apply::<Array1<(Option<i32>, i32)>, _, _>(w, |rm, x| (rm, x), Some(view));
        assert!(r.is_none(), "rolling_apply out: nothing returned");
    }
    let mut i = 0;
    while i < N {
        let got = unsafe { big[2 * i].assume_init() };
        assert!(got == ret[i], "strided ndarray out: every slot of the view is written with the value of the returned path");
        if 2 * i + 1 < M {
            let gap = unsafe { big[2 * i + 1].assume_init() };
            assert!(gap == (None, -77), "strided ndarray out: slots outside the view are not written");
        }
        i += 1;
    }
    kani::cover!(w < N, "window shorter than the series");
}

#[kani::proof]
#[kani::stub(std::fmt::format, crate::util::fmt_stub)]
#[kani::unwind(10)]
pub fn c10_out_nd_strided_n2() {
    out_nd_strided::<2, 4>();
}

#[cfg(feature = "thorough")]
#[kani::proof]
#[kani::stub(std::fmt::format, crate::util::fmt_stub)]
#[kani::unwind(10)]
pub fn c10_out_nd_strided_n3() {
    out_nd_strided::<3, 6>();
}

/// the same with a REVERSED out view (step -1: contiguous in memory, but slot i of the view is memory slot N-1-i) — added after
/// seeded change C02-m5 (a "contiguous buffer" fast path writing in memory order)
pub fn out_nd_reversed<const N: usize>() {
    let xs: [i32; N] = kani::any();
    let v: Vec<i32> = xs.to_vec();
    let w = any_window::<N>(1);
    let ret: Vec<(Option<i32>, i32)> = v.rolling_apply(w, |rm, x| (rm, x), None).unwrap();
    let mut big: Array1<MaybeUninit<(Option<i32>, i32)>> = Array1::from_elem(N, MaybeUninit::new((None, -77)));
    {
        let view = big.slice_mut(s![..;-1]);
        let r = v.rolling_apply::<Array1<(Option<i32>, i32)>, _, _>(w, |rm, x| (rm, x), Some(view));
        assert!(r.is_none(), "rolling_apply out: nothing returned");
    }
    let mut i = 0;
    while i < N {
        let got = unsafe { big[N - 1 - i].assume_init() };
        assert!(got == ret[i], "reversed ndarray out: slot i of the view holds result i");
        i += 1;
    }
    kani::cover!(w < N, "window shorter than the series");
}

#[kani::proof]
#[kani::stub(std::fmt::format, crate::util::fmt_stub)]
#[kani::unwind(10)]
pub fn c10_out_nd_reversed_n2() {
    out_nd_reversed::<2>();
}

#[cfg(feature = "thorough")]
#[kani::proof]
#[kani::stub(std::fmt::format, crate::util::fmt_stub)]
#[kani::unwind(10)]
pub fn c10_out_nd_reversed_n3() {
    out_nd_reversed::<3>();
}

/// second series LONGER than the first (it passes the drivers' length assert): every unchecked index still has to stay
/// below the length of the FIRST series and every output slot is written once (added after seeded change C10-m1)
pub fn long2<const N: usize, const M: usize>() -> bool {
    let xs: [i32; N] = kani::any();
    let ys: [i32; M] = kani::any();
    let v: Vec<i32> = xs.to_vec();
    let v2: Vec<i32> = ys.to_vec();
    let w = any_window::<N>(1);
    let which: u8 = kani::any();
    kani::assume(which < 6);
    match which {
        0 => { apply2_ret::<i32, _, _, N>(&v, &v2, w); },
        1 => { apply2_out::<i32, _, _, N>(&v, &v2, w); },
        2 => { idx2_ret::<i32, _, _, N>(&v, &v2, w); },
        3 => { idx2_out::<i32, _, _, N>(&v, &v2, w); },
        4 => { custom2_ret!(v, &v2, w, N); },
        _ => { custom2_out!(v, &v2, w, N); },
    }
    kani::cover!(w >= N + 2, "window at least two longer than the first series");
    w < N
}

#[kani::proof]
#[kani::stub(std::fmt::format, crate::util::fmt_stub)]
#[kani::unwind(7)]
pub fn c10_long2_n1() {
    let _short = long2::<1, 3>();       // N = 1: no window is shorter than the series
}

#[kani::proof]
#[kani::stub(std::fmt::format, crate::util::fmt_stub)]
#[kani::unwind(8)]
pub fn c10_long2_n2() {
    let short = long2::<2, 4>();
    kani::cover!(short, "window shorter than the first series");
}

#[cfg(feature = "thorough")]
#[kani::proof]
#[kani::stub(std::fmt::format, crate::util::fmt_stub)]
#[kani::unwind(9)]
pub fn c10_long2_n3() {
    let short = long2::<3, 5>();
    kani::cover!(short, "window shorter than the first series");
}

include!("c10_gen.rs");
