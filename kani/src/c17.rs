//! C17 — date-time, duration and time-of-day arithmetic obeys its inverse laws (the part reachable by Kani).
//!
//! Inside (this module):
//!   * `Time` constructors report their components through the `Timelike` getters (which go through
//!     `Time::as_cr` -> `chrono::NaiveTime`), round trip Time <-> NaiveTime, `Time ± TimeDelta` for month-free
//!     durations is exact nanosecond arithmetic;
//!   * `TimeDelta` group laws (+, -, unary -, * i32) with chrono::Duration's (secs, nanos) normalisation
//!     executed for real.
//! Outside (see props/c17.py): everything on `DateTime<U>` with valid operands — every operator in
//! tea-time/src/impls/impl_ops.rs converts through `chrono::DateTime<Utc>` (`as_cr`, `+ Duration`, `.into()`),
//! whose calendar conversion gave no solver answer in 40–55 min (DESIGN 1.1).
use chrono::{Duration, NaiveTime};
use tea_time::{Time, TimeDelta, Timelike};

const NS: i64 = 1_000_000_000;
const DAY_NS: i64 = 86_400 * NS;

// ---------------------------------------------------------------------------------------------
// symbolic operands
// ---------------------------------------------------------------------------------------------

/// chrono::Duration with |secs| <= lim and every sub-second part (0 <= nanos < 10^9 is chrono's
/// representation invariant; `Duration::new` performs range checks only, no division).
fn any_duration(lim: i64) -> Duration {
    let secs: i64 = kani::any();
    let nanos: u32 = kani::any();
    kani::assume(secs >= -lim && secs <= lim);
    kani::assume(nanos < 1_000_000_000);
    match Duration::new(secs, nanos) {
        Some(d) => d,
        None => unreachable!(),
    }
}

/// valid (non-NaT) TimeDelta: |months| <= 1200, |secs| <= lim
fn any_delta(lim: i64) -> TimeDelta {
    let months: i32 = kani::any();
    kani::assume(months >= -1200 && months <= 1200);
    TimeDelta { months, inner: any_duration(lim) }
}

/// total nanoseconds of a duration as a mathematical integer (needs |secs| < 2^33 to fit i64)
fn dur_ns(secs: i64, nanos: u32) -> i64 {
    secs * NS + nanos as i64
}

/// time of day inside 0 .. 86400 s, every nanosecond
fn any_time_of_day() -> Time {
    let v: i64 = kani::any();
    kani::assume(v >= 0 && v < DAY_NS);
    Time(v)
}

// bounds of the duration laws: chrono's Duration holds |secs| <= i64::MAX/1000 (about 2^53); three operands
// of 2^40 (quick) / 2^50 (thorough) never reach chrono's legitimate overflow panic.
#[cfg(not(feature = "thorough"))]
const TD_LIM: i64 = 1 << 40;
#[cfg(feature = "thorough")]
const TD_LIM: i64 = 1 << 50;

// ---------------------------------------------------------------------------------------------
// Time: constructors report their components
// ---------------------------------------------------------------------------------------------

fn any_hms() -> (i64, i64, i64) {
    let h: i64 = kani::any();
    let m: i64 = kani::any();
    let s: i64 = kani::any();
    kani::assume(h >= 0 && h < 24);
    kani::assume(m >= 0 && m < 60);
    kani::assume(s >= 0 && s < 60);
    (h, m, s)
}

fn check_components(t: Time, h: i64, m: i64, s: i64, nano: i64) {
    assert!(t.is_not_nat(), "constructed time is valid");
    assert!(t.hour() as i64 == h, "hour() reports the hour component");
    assert!(t.minute() as i64 == m, "minute() reports the minute component");
    assert!(t.second() as i64 == s, "second() reports the second component");
    assert!(t.nanosecond() as i64 == nano, "nanosecond() reports the sub-second component");
}

/// from_hms(h, m, s), all 86400 combinations
#[kani::proof]
#[kani::stub(std::fmt::format, crate::util::fmt_stub)]
pub fn c17_time_from_hms_components() {
    let (h, m, s) = any_hms();
    kani::cover!(h == 23 && m == 59 && s == 59, "last second of the day");
    kani::cover!(h == 0 && m == 0 && s == 0, "midnight");
    check_components(Time::from_hms(h, m, s), h, m, s, 0);
}

/// from_hms_milli(h, m, s, 0..1000)
#[kani::proof]
#[kani::stub(std::fmt::format, crate::util::fmt_stub)]
pub fn c17_time_from_hms_milli_components() {
    let (h, m, s) = any_hms();
    let ms: i64 = kani::any();
    kani::assume(ms >= 0 && ms < 1_000);
    kani::cover!(h == 23 && m == 59 && s == 59 && ms == 999, "last millisecond of the day");
    check_components(Time::from_hms_milli(h, m, s, ms), h, m, s, ms * 1_000_000);
}

/// from_hms_micro(h, m, s, 0..10^6)
#[kani::proof]
#[kani::stub(std::fmt::format, crate::util::fmt_stub)]
pub fn c17_time_from_hms_micro_components() {
    let (h, m, s) = any_hms();
    let us: i64 = kani::any();
    kani::assume(us >= 0 && us < 1_000_000);
    kani::cover!(h == 23 && m == 59 && s == 59 && us == 999_999, "last microsecond of the day");
    check_components(Time::from_hms_micro(h, m, s, us), h, m, s, us * 1_000);
}

/// from_hms_nano(h, m, s, 0..10^9)
#[kani::proof]
#[kani::stub(std::fmt::format, crate::util::fmt_stub)]
pub fn c17_time_from_hms_nano_components() {
    let (h, m, s) = any_hms();
    let ns: i64 = kani::any();
    kani::assume(ns >= 0 && ns < NS);
    kani::cover!(h == 23 && m == 59 && s == 59 && ns == NS - 1, "last nanosecond of the day");
    check_components(Time::from_hms_nano(h, m, s, ns), h, m, s, ns);
}

/// from_num_seconds_from_midnight(0..86400, 0..10^9): components stated without a second divider
/// (h*3600 + m*60 + s == secs with m, s < 60 determines them uniquely)
#[kani::proof]
#[kani::stub(std::fmt::format, crate::util::fmt_stub)]
pub fn c17_time_from_secs_components() {
    let secs: i64 = kani::any();
    let ns: i64 = kani::any();
    kani::assume(secs >= 0 && secs < 86_400);
    kani::assume(ns >= 0 && ns < NS);
    kani::cover!(secs == 86_399 && ns == NS - 1, "last nanosecond of the day");
    let t = Time::from_num_seconds_from_midnight(secs, ns);
    assert!(t.0 == secs * NS + ns, "nanoseconds since midnight");
    let (h, m, s) = (t.hour() as i64, t.minute() as i64, t.second() as i64);
    assert!(h < 24 && m < 60 && s < 60, "components in range");
    assert!(h * 3600 + m * 60 + s == secs, "hour/minute/second decompose the second of the day");
    assert!(t.nanosecond() as i64 == ns, "nanosecond() reports the sub-second component");
    assert!(t.num_seconds_from_midnight() as i64 == secs, "num_seconds_from_midnight() reports the second of the day");
}

// ---------------------------------------------------------------------------------------------
// Time <-> chrono::NaiveTime round trips
// ---------------------------------------------------------------------------------------------

/// Time -> NaiveTime -> Time is the identity on 0 .. 86400 s (every nanosecond)
#[kani::proof]
#[kani::stub(std::fmt::format, crate::util::fmt_stub)]
pub fn c17_time_roundtrip_via_naive() {
    let t = any_time_of_day();
    kani::cover!(t.0 == DAY_NS - 1, "last nanosecond of the day");
    kani::cover!(t.0 % NS != 0 && t.0 > NS, "sub-second part present");
    match t.as_cr() {
        Some(nt) => {
            let back = Time::from_cr(&nt);
            assert!(back.0 == t.0, "Time -> NaiveTime -> Time identity");
        },
        None => assert!(false, "a time of day inside 0..86400 s has a NaiveTime"),
    }
}

/// NaiveTime -> Time -> NaiveTime is the identity for every non-leap NaiveTime
#[kani::proof]
#[kani::stub(std::fmt::format, crate::util::fmt_stub)]
pub fn c17_naive_roundtrip_via_time() {
    let secs: u32 = kani::any();
    let frac: u32 = kani::any();
    kani::assume(secs < 86_400 && frac < 1_000_000_000);
    kani::cover!(secs == 86_399 && frac == 999_999_999, "last nanosecond of the day");
    let nt = match NaiveTime::from_num_seconds_from_midnight_opt(secs, frac) {
        Some(nt) => nt,
        None => unreachable!(),
    };
    let t = Time::from_cr(&nt);
    assert!(t.0 == secs as i64 * NS + frac as i64, "from_cr is nanoseconds since midnight");
    match t.as_cr() {
        Some(back) => assert!(back == nt, "NaiveTime -> Time -> NaiveTime identity"),
        None => assert!(false, "from_cr result converts back"),
    }
}

// ---------------------------------------------------------------------------------------------
// Time ± month-free TimeDelta: exact nanosecond arithmetic
// ---------------------------------------------------------------------------------------------
// impl_ops.rs: `Time(self.0 ± rhs.inner.num_nanoseconds()?)` — plain i64 arithmetic: no wrap-around at
// midnight, no saturation, no NaT for out-of-day results. The law is asserted for results inside the day
// (the property's "times of day over the full 0..86400 s range"); out-of-day results are only witnessed.

/// shift duration: |secs| <= 86400 (two days of span around any time of day), every sub-second part
fn any_shift() -> (TimeDelta, i64) {
    let secs: i64 = kani::any();
    let nanos: u32 = kani::any();
    kani::assume(secs >= -86_400 && secs <= 86_400);
    kani::assume(nanos < 1_000_000_000);
    let d = match Duration::new(secs, nanos) {
        Some(d) => d,
        None => unreachable!(),
    };
    (TimeDelta { months: 0, inner: d }, dur_ns(secs, nanos))
}

#[kani::proof]
#[kani::stub(std::fmt::format, crate::util::fmt_stub)]
pub fn c17_time_add_delta_exact() {
    let t = any_time_of_day();
    let (d, dn) = any_shift();
    let exp = t.0 + dn;
    let r = t + d;
    kani::cover!(dn < 0 && dn % NS != 0 && exp >= 0 && exp < DAY_NS, "negative fractional shift inside the day");
    kani::cover!(dn > 0 && exp >= 0 && exp < DAY_NS, "positive shift inside the day");
    kani::cover!(exp >= DAY_NS, "result past midnight (not asserted)");
    kani::cover!(exp < 0, "result before midnight (not asserted)");
    if exp >= 0 && exp < DAY_NS {
        assert!(r.0 == exp, "time + month-free duration is exact");
    }
}

#[kani::proof]
#[kani::stub(std::fmt::format, crate::util::fmt_stub)]
pub fn c17_time_sub_delta_exact() {
    let t = any_time_of_day();
    let (d, dn) = any_shift();
    let exp = t.0 - dn;
    let r = t - d;
    kani::cover!(dn < 0 && dn % NS != 0 && exp >= 0 && exp < DAY_NS, "negative fractional shift inside the day");
    kani::cover!(dn > 0 && exp >= 0 && exp < DAY_NS, "positive shift inside the day");
    kani::cover!(exp >= DAY_NS, "result past midnight (not asserted)");
    kani::cover!(exp < 0, "result before midnight (not asserted)");
    if exp >= 0 && exp < DAY_NS {
        assert!(r.0 == exp, "time - month-free duration is exact");
    }
}

/// (t + d) - d == t and (t - d) + d == t whenever the intermediate result is a time of day
#[kani::proof]
#[kani::stub(std::fmt::format, crate::util::fmt_stub)]
pub fn c17_time_shift_inverse() {
    let t = any_time_of_day();
    let (d, dn) = any_shift();
    kani::cover!(dn < 0 && t.0 + dn >= 0, "negative shift inside the day");
    kani::cover!(dn > 0 && t.0 + dn < DAY_NS, "positive shift inside the day");
    if t.0 + dn >= 0 && t.0 + dn < DAY_NS {
        assert!(((t + d) - d).0 == t.0, "time + duration - duration is the original time");
    }
    if t.0 - dn >= 0 && t.0 - dn < DAY_NS {
        assert!(((t - d) + d).0 == t.0, "time - duration + duration is the original time");
    }
}

/// NaT time of day shifted by a valid month-free duration stays NaT (same defect as C16 c16_natop_time_*_lhs_nat;
/// isolated here because the C17 quantifier names NaT operands).
#[kani::proof]
#[kani::stub(std::fmt::format, crate::util::fmt_stub)]
pub fn c17_time_nat_shift_stays_nat() {
    let (d, dn) = any_shift();
    kani::cover!(dn > 0, "positive shift");
    // a non-negative shift avoids the debug overflow panic of i64::MIN + negative: one failure cause per harness
    kani::assume(dn >= 0);
    assert!((Time::nat() + d).is_nat(), "NaT time + duration stays NaT");
}

// ---------------------------------------------------------------------------------------------
// TimeDelta group laws (months: i32 added; inner: chrono::Duration normalised (secs, nanos))
// ---------------------------------------------------------------------------------------------

fn td_zero() -> TimeDelta {
    TimeDelta { months: 0, inner: Duration::zero() }
}

fn td_eq(a: TimeDelta, b: TimeDelta) -> bool {
    a.months == b.months && a.inner == b.inner
}

/// a + b - b == a, a - b + b == a, a - b == a + (-b)
#[kani::proof]
#[kani::stub(std::fmt::format, crate::util::fmt_stub)]
pub fn c17_td_add_sub_inverse() {
    let a = any_delta(TD_LIM);
    let b = any_delta(TD_LIM);
    kani::cover!(a.months != 0 && b.months < 0 && b.inner < Duration::zero() && b.inner.subsec_nanos() != 0,
                 "month-carrying, negative fractional subtrahend");
    kani::cover!(a.months == 0 && b.months == 0, "month-free operands");
    assert!(td_eq(a + b - b, a), "a + b - b == a");
    assert!(td_eq(a - b + b, a), "a - b + b == a");
    assert!(td_eq(a - b, a + (-b)), "a - b == a + (-b)");
    assert!((a + b).is_not_nat() && (a - b).is_not_nat(), "valid operands give a valid duration");
}

/// a + (-a) == 0, -(-a) == a, a + 0 == a, 0 + a == a, a - a == 0
#[kani::proof]
#[kani::stub(std::fmt::format, crate::util::fmt_stub)]
pub fn c17_td_neg_identity() {
    let a = any_delta(TD_LIM);
    kani::cover!(a.months < 0 && a.inner > Duration::zero() && a.inner.subsec_nanos() != 0, "mixed signs, fractional");
    kani::cover!(a.months == 0 && a.inner < Duration::zero(), "month-free negative");
    assert!(td_eq(a + (-a), td_zero()), "a + (-a) == zero");
    assert!(td_eq((-a) + a, td_zero()), "(-a) + a == zero");
    assert!(td_eq(-(-a), a), "-(-a) == a");
    assert!(td_eq(a + td_zero(), a), "a + zero == a");
    assert!(td_eq(td_zero() + a, a), "zero + a == a");
    assert!(td_eq(a - a, td_zero()), "a - a == zero");
    assert!((-a).is_not_nat(), "negation of a valid duration is valid");
}

/// (a + b) + c == a + (b + c), a + b == b + a
#[kani::proof]
#[kani::stub(std::fmt::format, crate::util::fmt_stub)]
pub fn c17_td_add_assoc_comm() {
    let a = any_delta(TD_LIM);
    let b = any_delta(TD_LIM);
    let c = any_delta(TD_LIM);
    kani::cover!(a.months > 0 && b.months < 0 && c.months != 0, "month-carrying operands");
    kani::cover!(a.inner.subsec_nanos() > 600_000_000 && b.inner.subsec_nanos() > 600_000_000
                 && c.inner.subsec_nanos() > 600_000_000 && a.inner > Duration::zero()
                 && b.inner > Duration::zero() && c.inner > Duration::zero(), "two sub-second carries");
    assert!(td_eq((a + b) + c, a + (b + c)), "(a + b) + c == a + (b + c)");
    assert!(td_eq(a + b, b + a), "a + b == b + a");
}

// integer scaling. chrono's `Duration * i32` multiplies secs in i128 and normalises nanos * k with one
// div_euclid/rem_euclid by 10^9; operands are restricted (stated in the evidence) because 64/128-bit symbolic
// multiplications and dividers are what the SAT back end is slow on.
#[cfg(not(feature = "thorough"))]
const MUL_LIM: i64 = 1 << 20;
#[cfg(feature = "thorough")]
const MUL_LIM: i64 = 1 << 30;

/// a * k has k * months and k * (total nanoseconds), in chrono's normal form — stated with multiplications only
/// (no second divider): the normal form (secs, 0 <= nanos < 10^9) of a nanosecond count is unique.
#[kani::proof]
#[kani::stub(std::fmt::format, crate::util::fmt_stub)]
pub fn c17_td_mul_value() {
    let months: i32 = kani::any();
    let secs: i64 = kani::any();
    let nanos: u32 = kani::any();
    let k: i32 = kani::any();
    kani::assume(months >= -1200 && months <= 1200);
    kani::assume(secs >= -MUL_LIM && secs <= MUL_LIM);
    kani::assume(nanos < 1_000_000_000);
    kani::assume(k >= -8 && k <= 8);
    let a = TimeDelta {
        months,
        inner: match Duration::new(secs, nanos) {
            Some(d) => d,
            None => unreachable!(),
        },
    };
    let r = a * k;
    assert!(r.months == months * k, "months scale");
    let total = dur_ns(secs, nanos) * k as i64;
    // oracle in multiplication form: a solver-chosen witness (es, en) of the unique normal form of `total`
    let es: i64 = kani::any();
    let en: u32 = kani::any();
    kani::assume(es >= -16 * MUL_LIM && es <= 16 * MUL_LIM && en < 1_000_000_000);
    kani::assume(es * NS + en as i64 == total);
    let expect = match Duration::new(es, en) {
        Some(d) => d,
        None => unreachable!(),
    };
    // witnesses placed after the oracle's assumption: they also show that the witness exists
    kani::cover!(k < -1 && secs > 0 && nanos > 500_000_000, "negative factor, fractional operand");
    kani::cover!(k > 1 && secs < 0 && nanos > 500_000_000, "positive factor, negative fractional operand");
    assert!(r.inner == expect, "duration scales exactly, result in chrono's normal form");
}

/// (a + b) * k == a * k + b * k for |k| <= 8, and the unit/zero/minus-one factors
#[kani::proof]
#[kani::stub(std::fmt::format, crate::util::fmt_stub)]
pub fn c17_td_mul_distributes() {
    let a = any_delta(MUL_LIM);
    let b = any_delta(MUL_LIM);
    let k: i32 = kani::any();
    kani::assume(k >= -8 && k <= 8);
    kani::cover!(k < -1 && a.months != 0 && b.inner.subsec_nanos() != 0, "negative factor");
    kani::cover!(k > 1 && a.inner < Duration::zero() && b.inner > Duration::zero(), "positive factor, mixed signs");
    assert!(td_eq((a + b) * k, a * k + b * k), "(a + b) * k == a * k + b * k");
}

/// a * 1 == a, a * 0 == zero, a * -1 == -a, a * 2 == a + a
#[kani::proof]
#[kani::stub(std::fmt::format, crate::util::fmt_stub)]
pub fn c17_td_mul_units() {
    let a = any_delta(MUL_LIM);
    kani::cover!(a.months != 0 && a.inner < Duration::zero() && a.inner.subsec_nanos() != 0, "negative fractional");
    assert!(td_eq(a * 1, a), "a * 1 == a");
    assert!(td_eq(a * 0, td_zero()), "a * 0 == zero");
    assert!(td_eq(a * -1, -a), "a * -1 == -a");
    assert!(td_eq(a * 2, a + a), "a * 2 == a + a");
}

// ---- scratch (to be removed) ----
fn total_ns(secs: i64, nanos: u32) -> i64 {
    let (s1, n1) = if secs < 0 && nanos > 0 { (secs + 1, nanos as i64 - NS) } else { (secs, nanos as i64) };
    s1 * NS + n1
}
fn x_shift() -> (TimeDelta, i64) {
    let secs: i64 = kani::any();
    let nanos: u32 = kani::any();
    kani::assume(secs >= -86_400 && secs <= 86_400);
    kani::assume(nanos < 1_000_000_000);
    let d = match Duration::new(secs, nanos) {
        Some(d) => d,
        None => unreachable!(),
    };
    (TimeDelta { months: 0, inner: d }, total_ns(secs, nanos))
}
#[kani::proof]
#[kani::stub(std::fmt::format, crate::util::fmt_stub)]
pub fn c17_x_add3() {
    let t = any_time_of_day();
    let (d, dn) = x_shift();
    let exp = t.0 + dn;
    let r = t + d;
    if exp >= 0 && exp < DAY_NS {
        assert!(r.0 == exp, "time + month-free duration is exact");
    }
}
#[kani::proof]
#[kani::stub(std::fmt::format, crate::util::fmt_stub)]
pub fn c17_x_inv3() {
    let t = any_time_of_day();
    let (d, dn) = x_shift();
    if t.0 + dn >= 0 && t.0 + dn < DAY_NS {
        assert!(((t + d) - d).0 == t.0, "time + duration - duration is the original time");
    }
    if t.0 - dn >= 0 && t.0 - dn < DAY_NS {
        assert!(((t - d) + d).0 == t.0, "time - duration + duration is the original time");
    }
}
fn x_recomb(lo: i64, hi: i64) {
    let v: i64 = kani::any();
    kani::assume(v >= lo && v < hi);
    let t = Time(v);
    match t.as_cr() {
        Some(nt) => {
            assert!(Time::from_cr(&nt).0 == v, "Time -> NaiveTime -> Time identity");
            assert!(nt.num_seconds_from_midnight() as i64 * NS + nt.nanosecond() as i64 == v, "as_cr recombines");
        },
        None => assert!(false, "a time of day inside 0..86400 s has a NaiveTime"),
    }
    let (h, m, s, n) = (t.hour() as i64, t.minute() as i64, t.second() as i64, t.nanosecond() as i64);
    assert!(h < 24 && m < 60 && s < 60 && n < NS, "components in range");
    assert!((h * 3600 + m * 60 + s) * NS + n == v, "components recombine to the time of day");
}
#[kani::proof]
#[kani::stub(std::fmt::format, crate::util::fmt_stub)]
pub fn c17_x_recomb6() { x_recomb(0, 6 * 3600 * NS) }
#[kani::proof]
#[kani::solver(kissat)]
#[kani::stub(std::fmt::format, crate::util::fmt_stub)]
pub fn c17_x_recomb6k() { x_recomb(0, 6 * 3600 * NS) }
fn x_direct(lo: u32, hi: u32) {
    let secs: u32 = kani::any();
    let frac: u32 = kani::any();
    kani::assume(secs >= lo && secs < hi && frac < 1_000_000_000);
    let nt = NaiveTime::from_num_seconds_from_midnight_opt(secs, frac).unwrap();
    let t = Time::from_cr(&nt);
    assert!(t.0 == secs as i64 * NS + frac as i64, "from_cr is nanoseconds since midnight");
    match t.as_cr() {
        Some(back) => assert!(back == nt, "NaiveTime -> Time -> NaiveTime identity"),
        None => assert!(false, "from_cr result converts back"),
    }
}
#[kani::proof]
#[kani::stub(std::fmt::format, crate::util::fmt_stub)]
pub fn c17_x_direct12() { x_direct(0, 4096) }
#[kani::proof]
#[kani::stub(std::fmt::format, crate::util::fmt_stub)]
pub fn c17_x_direct14() { x_direct(0, 16384) }
#[kani::proof]
#[kani::stub(std::fmt::format, crate::util::fmt_stub)]
pub fn c17_x_muldist_whole() {
    let mut a = any_delta(MUL_LIM);
    let mut b = any_delta(MUL_LIM);
    kani::assume(a.inner.subsec_nanos() == 0 && b.inner.subsec_nanos() == 0);
    let k: i32 = kani::any();
    kani::assume(k >= -8 && k <= 8);
    assert!(td_eq((a + b) * k, a * k + b * k), "(a + b) * k == a * k + b * k");
}
#[kani::proof]
#[kani::stub(std::fmt::format, crate::util::fmt_stub)]
pub fn c17_x_ctor() {
    let (h, m, s) = any_hms();
    let sod = h * 3600 + m * 60 + s;
    let x: i64 = kani::any();
    kani::assume(x >= 0 && x < NS);
    assert!(Time::from_hms(h, m, s).0 == sod * NS, "from_hms value");
    assert!(Time::from_hms_nano(h, m, s, x).0 == sod * NS + x, "from_hms_nano value");
    if x < 1_000_000 { assert!(Time::from_hms_micro(h, m, s, x).0 == sod * NS + x * 1000, "from_hms_micro value"); }
    if x < 1_000 { assert!(Time::from_hms_milli(h, m, s, x).0 == sod * NS + x * 1_000_000, "from_hms_milli value"); }
    assert!(Time::from_num_seconds_from_midnight(sod, x).0 == sod * NS + x, "from_num_seconds_from_midnight value");
}
