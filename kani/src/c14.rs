//! C14 — binning assigns the unique enclosing bin; run de-duplication keeps run ends.
//!
//! vcut: values (1 or 2 of them, `Option<i32>`, unconstrained incl. i32::MIN / i32::MAX / null), a
//! concrete number E of symbolic strictly ascending `i32` edges and a concrete number L of labels
//! (label j is `Some(j)`); `right` / `add_bounds` are literals per harness (the returned boxed closure
//! differs per flag). Reference: with open bounds the bin of v is the number of edges below v
//! (`e < v` right-closed, `e <= v` left-closed); without bounds it is that number minus one and exists
//! only between the first and last edge.
//!
//! vsorted_unique(_idx): input built as run-length encoding (see `runs`): a null block of symbolic
//! length at the head or tail, the rest cut into runs by symbolic break flags, run values strictly
//! monotone (ascending or descending, symbolic).
//!
//! Genuine defects of the pinned tree are isolated in their own harnesses
//! (`c14_vcut_open_extreme_*`, `c14_unique_idx_last_leading_nulls_*`).
use tea_core::prelude::*;
use tea_map::{Keep, MapValidBasic};

use crate::util::*;

// ---------------------------------------------------------------------------------------------
// vcut
// ---------------------------------------------------------------------------------------------

/// which values a harness ranges over
#[derive(Clone, Copy, PartialEq)]
pub enum Vals {
    /// everything except the one extreme that the pinned tree mislabels under open bounds
    /// (i32::MIN right-closed, i32::MAX left-closed) — that value has its own harness
    NotExcludedExtreme,
    /// exactly that extreme
    ExcludedExtreme,
    /// no restriction (closed bounds)
    All,
}

#[derive(Default)]
pub struct CutFlags {
    pub labelled: bool,
    pub outside: bool,
    pub null: bool,
    pub on_edge: bool,
    pub mismatch: bool,
    pub extreme: bool,
    /// the extreme value under open bounds did not get its label; asserted by the harness after all
    /// edge counts (Kani cuts the path at a failed assertion, which would hide E = 1, 2 behind E = 0)
    pub extreme_unlabelled: bool,
}

fn sym_value(right: bool, vals: Vals) -> Option<i32> {
    let v: Option<i32> = kani::any();
    let ext = if right { i32::MIN } else { i32::MAX };
    match vals {
        Vals::All => {},
        Vals::NotExcludedExtreme => kani::assume(v != Some(ext)),
        Vals::ExcludedExtreme => kani::assume(v == Some(ext)),
    }
    v
}

/// judge one output item for input value `v`
fn judge_cut<const E: usize>(
    v: Option<i32>,
    edges: &[i32; E],
    right: bool,
    add_bounds: bool,
    item: &Option<TResult<Option<i32>>>,
    fl: &mut CutFlags,
) {
    let item = match item {
        Some(x) => x,
        None => {
            assert!(false, "vcut yields one item per input value");
            return;
        },
    };
    let v = match v {
        None => {
            fl.null = true;
            assert!(matches!(item, Ok(None)), "null value gets the null label");
            return;
        },
        Some(v) => v,
    };
    // number of edges below v
    let mut below = 0usize;
    let mut i = 0;
    while i < E {
        if (right && edges[i] < v) || (!right && edges[i] <= v) {
            below += 1;
        }
        if edges[i] == v {
            fl.on_edge = true;
        }
        i += 1;
    }
    if add_bounds {
        if (right && v == i32::MIN) || (!right && v == i32::MAX) {
            fl.extreme = true;
            if !matches!(item, Ok(Some(l)) if *l == below as i32) {
                fl.extreme_unlabelled = true;
            }
        } else {
            fl.labelled = true;
            assert!(item.is_ok(), "open bounds: every non-null value gets a label");
            assert!(matches!(item, Ok(Some(l)) if *l == below as i32), "label of the unique enclosing interval (open bounds)");
        }
    } else if below >= 1 && below < E {
        // strictly inside (e[0], e[E-1]] resp. [e[0], e[E-1])
        fl.labelled = true;
        assert!(matches!(item, Ok(Some(l)) if *l + 1 == below as i32), "label of the unique enclosing interval");
    } else {
        fl.outside = true;
        assert!(item.is_err(), "value outside all intervals is reported as an error");
    }
}

/// Results are examined by reference and then `mem::forget`-ed instead of dropped: the drop glue of
/// `TError` (its `Io(std::io::Error)` variant owns a `Box<dyn Error>`) and of the boxed iterator is a
/// virtual call over every implementor in the crate graph; it cost 105 s of symbolic execution and
/// 2.1 M SAT variables per `vcut` call, against 1.3 s / 73 k without it. Nothing of the property is in
/// a destructor.
macro_rules! cut_body {
    ($E:ident, $LMAX:ident, $right:ident, $add_bounds:ident, $vals:ident, $fl:ident, [$($v:ident),+], $mk:expr) => {{
        let edges: [i32; $E] = kani::any();
        let mut i = 1;
        while i < $E {
            kani::assume(edges[i - 1] < edges[i]);
            i += 1;
        }
        let mut bins: Vec<Option<i32>> = Vec::with_capacity($E);
        let mut i = 0;
        while i < $E {
            bins.push(Some(edges[i]));
            i += 1;
        }
        $(let $v = sym_value($right, $vals);)+
        // all label counts 0..=E+1
        let mut l = 0;
        while l < $LMAX {
            let mut labels: Vec<Option<i32>> = Vec::with_capacity($LMAX);
            let mut j = 0;
            while j < l {
                labels.push(Some(j as i32));
                j += 1;
            }
            let fits = if $add_bounds { l == $E + 1 } else { l + 1 == $E };
            let r = $mk.vcut(&bins, &labels, $right, $add_bounds);
            match r {
                Err(e) => {
                    $fl.mismatch = true;
                    assert!(!fits, "matching label count is accepted");
                    std::mem::forget(e);
                },
                Ok(mut it) => {
                    assert!(fits, "label count that does not match the edges is an error");
                    $(
                        let item = it.next();
                        judge_cut($v, &edges, $right, $add_bounds, &item, $fl);
                        std::mem::forget(item);
                    )+
                    let end = it.next();
                    assert!(end.is_none(), "vcut yields no more items than input values");
                    std::mem::forget(end);
                    std::mem::forget(it);
                },
            }
            l += 1;
        }
    }};
}

/// All label counts 0..=E+1 against E edges for one (right, add_bounds); one value. `LMAX` = E + 2.
pub fn cut_case<const E: usize, const LMAX: usize>(right: bool, add_bounds: bool, vals: Vals, fl: &mut CutFlags) {
    cut_body!(E, LMAX, right, add_bounds, vals, fl, [v0], std::iter::once(v0))
}

/// the same with two values in the iterator
pub fn cut_case2<const E: usize, const LMAX: usize>(right: bool, add_bounds: bool, vals: Vals, fl: &mut CutFlags) {
    cut_body!(E, LMAX, right, add_bounds, vals, fl, [v0, v1], std::iter::once(v0).chain(std::iter::once(v1)))
}

// ---------------------------------------------------------------------------------------------
// vsorted_unique_idx / vsorted_unique
// ---------------------------------------------------------------------------------------------

pub trait Elt: Copy + IsNone + PartialEq + 'static {
    fn from_key(k: Option<i32>) -> Self;
    fn key(self) -> Option<i32>;
}
impl Elt for Option<i32> {
    fn from_key(k: Option<i32>) -> Self {
        k
    }
    fn key(self) -> Option<i32> {
        self
    }
}
impl Elt for f64 {
    fn from_key(k: Option<i32>) -> Self {
        match k {
            None => f64::NAN,
            Some(v) => v as f64,
        }
    }
    fn key(self) -> Option<i32> {
        if self != self { None } else { Some(self as i32) }
    }
}

/// where the null block may sit
#[derive(Clone, Copy, PartialEq)]
pub enum Nulls {
    /// at the tail (or absent), or the whole input
    TailOrNone,
    /// at the head, at least one null and at least one valid element behind it
    Leading,
    /// head or tail, any length
    Anywhere,
}

/// A sorted input with adjacent equal values, as run-length encoding.
pub struct Runs<const N: usize> {
    pub keys: [Option<i32>; N],
    /// number of runs of equal non-null values
    pub r: usize,
    /// first / last index and value of the j-th run (j < r)
    pub first: [usize; N],
    pub last: [usize; N],
    pub val: [i32; N],
    pub nulls: usize,
    pub head: bool,
    pub long_run: bool,
    pub asc: bool,
}

/// Null block of symbolic length z at the head or tail; the other N - z positions are cut into runs
/// by symbolic break flags (equivalent to symbolic run lengths summing to N - z); every break moves
/// the value strictly up (asc) or down. All array indices below are literals after unrolling.
pub fn runs<const N: usize>(nulls: Nulls, small: bool) -> Runs<N> {
    let z: usize = kani::any();
    kani::assume(z <= N);
    let head: bool = kani::any();
    match nulls {
        Nulls::TailOrNone => kani::assume(!head || z == 0 || z == N),
        Nulls::Leading => kani::assume(head && z >= 1 && z < N),
        Nulls::Anywhere => {},
    }
    let asc: bool = kani::any();
    let start = if head { z } else { 0 };
    let end = start + (N - z);
    let mut out = Runs { keys: [None; N], r: 0, first: [0; N], last: [0; N], val: [0; N], nulls: z, head, long_run: false, asc };
    let mut cur: i32 = if small { small_i32(-8, 8) } else { kani::any() };
    let mut is_first = [false; N];
    let mut is_last = [false; N];
    let mut i = 0;
    while i < N {
        if i >= start && i < end {
            if i == start {
                is_first[i] = true;
            } else if kani::any() {
                let nv: i32 = if small { small_i32(-8, 8) } else { kani::any() };
                kani::assume(if asc { nv > cur } else { nv < cur });
                cur = nv;
                is_first[i] = true;
                is_last[i - 1] = true;
            } else {
                out.long_run = true;
            }
            if i + 1 == end {
                is_last[i] = true;
            }
            out.keys[i] = Some(cur);
        }
        i += 1;
    }
    // j-th first / last index by literal-index placement
    let (mut rf, mut rl) = (0usize, 0usize);
    let mut i = 0;
    while i < N {
        let mut j = 0;
        while j < N {
            if is_first[i] && j == rf {
                out.first[j] = i;
                if let Some(v) = out.keys[i] {
                    out.val[j] = v;
                }
            }
            if is_last[i] && j == rl {
                out.last[j] = i;
            }
            j += 1;
        }
        if is_first[i] {
            rf += 1;
        }
        if is_last[i] {
            rl += 1;
        }
        i += 1;
    }
    out.r = rf;
    out
}

pub fn to_vec<T: Elt, const N: usize>(k: &[Option<i32>; N]) -> Vec<T> {
    let mut v = Vec::with_capacity(N);
    let mut i = 0;
    while i < N {
        v.push(T::from_key(k[i]));
        i += 1;
    }
    v
}

#[derive(Default)]
pub struct UFlags {
    pub long_run: bool,
    pub several_runs: bool,
    pub nulls_and_values: bool,
    pub desc: bool,
    pub all_null: bool,
}

fn note<const N: usize>(rn: &Runs<N>, fl: &mut UFlags) {
    fl.long_run |= rn.long_run;
    fl.several_runs |= rn.r >= 2;
    fl.nulls_and_values |= rn.nulls > 0 && rn.r > 0;
    fl.desc |= !rn.asc && rn.r >= 2;
    fl.all_null |= rn.nulls == N && N > 0;
}

/// vsorted_unique_idx(keep): exactly the first / last index of every run, in order.
pub fn unique_idx_case<T: Elt, const N: usize>(last: bool, nulls: Nulls, small: bool, fl: &mut UFlags)
where
    T::Inner: PartialEq + std::fmt::Debug,
{
    let rn: Runs<N> = runs(nulls, small);
    note(&rn, fl);
    let v: Vec<T> = to_vec(&rn.keys);
    let mut it = v.titer().vsorted_unique_idx(if last { Keep::Last } else { Keep::First });
    let mut cnt = 0usize;
    let mut c = 0;
    while c <= N {
        match it.next() {
            None => break,
            Some(ix) => {
                assert!(ix < N, "produced index is in range");
                if ix < N {
                    assert!(rn.keys[ix].is_some(), "an index of a null is never produced");
                }
                // the c-th output belongs to the c-th run (c is a literal here)
                if c < N && c < rn.r {
                    let want = if last { rn.last[c] } else { rn.first[c] };
                    assert!(ix == want, "j-th produced index is the first/last index of the j-th run");
                }
                cnt = c + 1;
            },
        }
        c += 1;
    }
    std::mem::forget(it); // boxed iterator: virtual drop
    assert!(cnt == rn.r, "one index per run of equal non-null values");
}

/// vsorted_unique: one representative per run, in order, never a null.
pub fn unique_val_case<T: Elt, const N: usize>(nulls: Nulls, small: bool, fl: &mut UFlags)
where
    T::Inner: PartialEq,
{
    let rn: Runs<N> = runs(nulls, small);
    note(&rn, fl);
    let v: Vec<T> = to_vec(&rn.keys);
    let mut it = v.titer().vsorted_unique();
    let mut cnt = 0usize;
    let mut c = 0;
    while c <= N {
        match it.next() {
            None => break,
            Some(x) => {
                let k = x.key();
                assert!(k.is_some(), "a null is never a representative");
                if c < N && c < rn.r {
                    assert!(k == Some(rn.val[c]), "j-th value is the value of the j-th run");
                }
                cnt = c + 1;
            },
        }
        c += 1;
    }
    assert!(cnt == rn.r, "one representative per run of equal non-null values");
}

include!("c14_gen.rs");
