//! C07 harnesses (see /verif/tools/HARNESS_GUIDE.md).
