//! C07 — results are independent of input backend, output container and out-buffer path.
//!
//! Two families (DESIGN 3/C07):
//!
//! (a) `c07_acc_<container>_<Ns>` — accessor coherence. The logical sequence is a symbolic array
//!     `xs: [T; N]` (N concrete); the container is built from it and then *every* accessor must
//!     describe `xs`: `len()`/`is_empty()`, checked `get(i)` for all i < N and an `Err` for a symbolic
//!     i >= N, unchecked `uget(i)`, `titer()` forward and `.rev()` (and that both end after N items),
//!     `slice(a, b)` for symbolic 0 <= a <= b <= N read through the slice object's own accessors
//!     (`util::Win`), and `try_as_slice()` whenever it answers `Some`.
//!     Containers: Vec, [T; N], [T], VecDeque at ring offsets 0 / 1 (all offsets in the thorough tier),
//!     Array1, ArrayView1 with steps 1, 2, -1 (3, -2 thorough), Arc<Vec>, OptIter over Vec<Option<i32>>.
//!
//! (b) `c07_e2e_*` — end-to-end differential witnesses: the same symbolic sequence in two input
//!     containers, or the same call returned vs. written into a caller buffer of each output
//!     container type, gives element-wise identical results. Driver equivalence itself is C02.
//!
//! Polars is outside the claim.
use std::collections::VecDeque;
use std::mem::MaybeUninit;
use std::sync::Arc;

use ndarray::{Array1, ArrayView1, s};
use tea_core::prelude::*;
use tea_map::MapValidBasic;
use tea_rolling::{RollingValidCmp, RollingValidFeature};

use crate::util::*;

pub trait Elem: Copy + PartialEq + kani::Arbitrary + Default {}
impl<T: Copy + PartialEq + kani::Arbitrary + Default> Elem for T {}

/// vacuity flags collected over all N-cases of one harness
#[derive(Default)]
pub struct Fl {
    pub tas_some: bool,
    pub tas_none: bool,
    pub inner_slice: bool,
    pub empty_slice: bool,
}

/// len / get / uget / titer / titer().rev() all describe `x`.
pub fn acc_view<T: Elem, V: Vec1View<T> + ?Sized, const N: usize>(v: &V, x: &[T; N]) {
    assert!(v.len() == N, "len() is the logical length");
    assert!(v.is_empty() == (N == 0), "is_empty() agrees with the logical length");
    let mut i = 0;
    while i < N {
        match v.get(i) {
            Ok(e) => assert!(e == x[i], "get(i) is logical element i"),
            Err(e) => {
                std::mem::forget(e); // TError's recursive drop glue is irrelevant here
                assert!(false, "get(i) with i < len is Ok")
            },
        }
        assert!(unsafe { v.uget(i) } == x[i], "uget(i) is logical element i");
        i += 1;
    }
    let far: usize = kani::any();
    kani::assume(far >= N);
    let r = v.get(far);
    let is_err = r.is_err();
    std::mem::forget(r); // do not run TError's (recursive) drop glue under CBMC
    assert!(is_err, "get(i) with i >= len is an error");
    // forward iteration
    let mut it = v.titer();
    let mut i = 0;
    while i < N {
        assert!(it.next() == Some(x[i]), "titer() yields the logical sequence in order");
        i += 1;
    }
    assert!(it.next().is_none(), "titer() ends after len items");
    drop(it);
    // backward iteration
    let mut it = v.titer().rev();
    let mut i = 0;
    while i < N {
        assert!(it.next() == Some(x[N - 1 - i]), "titer().rev() yields the logical sequence reversed");
        i += 1;
    }
    assert!(it.next().is_none(), "titer().rev() ends after len items");
}

/// `try_as_slice()`, when offered, is the logical sequence.
pub fn acc_tas<T: Elem, V: Vec1View<T> + ?Sized, const N: usize>(v: &V, x: &[T; N], fl: &mut Fl) {
    match v.try_as_slice() {
        Some(s) => {
            fl.tas_some = true;
            assert!(s.len() == N, "try_as_slice() has the logical length");
            let mut i = 0;
            while i < N {
                assert!(s[i] == x[i], "try_as_slice() equals the logical sequence");
                i += 1;
            }
        },
        None => fl.tas_none = true,
    }
}

/// `slice(a, b)` for symbolic 0 <= a <= b <= N, read through the slice object's own accessors.
/// A macro because the slice type is a GAT of the backend.
macro_rules! acc_slice {
    ($v:expr, $x:expr, $N:expr, $fl:expr) => {{
        let a: usize = kani::any();
        let b: usize = kani::any();
        kani::assume(a <= b && b <= $N);
        let sl = Vec1View::slice($v, a, b).unwrap();
        assert!(sl.wlen() == b - a, "slice(a, b) has b - a elements");
        let mut j = 0;
        while j < $N {
            if j < b - a {
                assert!(sl.wget(j) == $x[a + j], "slice(a, b) element j is logical element a + j");
            }
            j += 1;
        }
        if 0 < a && a < b && b < $N {
            $fl.inner_slice = true;
        }
        if a == b {
            $fl.empty_slice = true;
        }
    }};
}

// ---------------------------------------------------------------------------------------------
// (b) end-to-end witnesses
// ---------------------------------------------------------------------------------------------

/// identical f64 results: same bits, or both NaN (the null)
pub fn same_f64(a: f64, b: f64) -> bool {
    a.to_bits() == b.to_bits() || (a != a && b != b)
}

/// Option<i32> data whose sums cannot overflow (|x| < 2^20; the overflow panic of an i32 running sum is
/// not a backend question)
pub fn any_opt_small<const N: usize>() -> [Option<i32>; N] {
    let x: [Option<i32>; N] = kani::any();
    let mut i = 0;
    while i < N {
        if let Some(v) = x[i] {
            kani::assume(v > -(1 << 20) && v < (1 << 20));
        }
        i += 1;
    }
    x
}

/// window in 1..=N+2, min_periods None or Some(0..=N+2)
pub fn any_params<const N: usize>() -> (usize, Option<usize>) {
    let w: usize = kani::any();
    kani::assume(w >= 1 && w <= N + 2);
    let m: usize = kani::any();
    kani::assume(m <= N + 2);
    let mp = if kani::any() { Some(m) } else { None };
    (w, mp)
}

pub fn cmp_f64<const N: usize>(a: &Vec<f64>, b: &Vec<f64>) -> bool {
    assert!(a.len() == N && b.len() == N, "both results have the input length");
    let mut saw_value = false;
    let mut i = 0;
    while i < N {
        assert!(same_f64(a[i], b[i]), "element-wise identical results from both input containers");
        saw_value |= a[i] == a[i];
        i += 1;
    }
    saw_value
}

pub fn e2e_tsvsum_vec_deq<const N: usize>() {
    let x = any_opt_small::<N>();
    let (w, mp) = any_params::<N>();
    let v: Vec<Option<i32>> = x.to_vec();
    let d = deque_rot(&x[..], 1);
    let a: Vec<f64> = v.ts_vsum(w, mp);
    let b: Vec<f64> = d.ts_vsum(w, mp);
    let val = cmp_f64::<N>(&a, &b);
    kani::cover!(val && w < N, "a non-null sum with a window shorter than the series");
}

pub fn e2e_tsvsum_vec_ndrev<const N: usize>() {
    let x = any_opt_small::<N>();
    let (w, mp) = any_params::<N>();
    let v: Vec<Option<i32>> = x.to_vec();
    let st = nd_rev_storage(&x[..]);
    let r = st.slice(s![..;-1]);
    let a: Vec<f64> = v.ts_vsum(w, mp);
    let b: Vec<f64> = r.ts_vsum(w, mp);
    let val = cmp_f64::<N>(&a, &b);
    kani::cover!(val && w < N, "a non-null sum with a window shorter than the series");
}

pub fn e2e_tsvmin_vec_deq<const N: usize>() {
    let x: [Option<i32>; N] = kani::any();
    let (w, mp) = any_params::<N>();
    let v: Vec<Option<i32>> = x.to_vec();
    let d = deque_rot(&x[..], 1);
    let a: Vec<Option<i32>> = v.ts_vmin(w, mp);
    let b: Vec<Option<i32>> = d.ts_vmin(w, mp);
    assert!(a.len() == N && b.len() == N, "both results have the input length");
    let mut val = false;
    let mut i = 0;
    while i < N {
        assert!(a[i] == b[i], "element-wise identical ts_vmin from both input containers");
        val |= a[i].is_some();
        i += 1;
    }
    kani::cover!(val && w < N, "a non-null minimum with a window shorter than the series");
}

/// `titer().vshift(n, None)` for every concrete lag n in -N-1..=N+1 (a symbolic lag makes the `skip` / `take`
/// pointer arithmetic of the VecDeque and ndarray iterators symbolic, which CBMC does not finish).
macro_rules! e2e_vshift {
    ($name:ident, $mk:expr, $msg:literal) => {
        pub fn $name<const N: usize>() {
            let x: [Option<i32>; N] = kani::any();
            let v: Vec<Option<i32>> = x.to_vec();
            let mut n = -(N as i32) - 1;
            while n <= N as i32 + 1 {
                let a: Vec<Option<i32>> = v.titer().vshift(n, None).collect_trusted_to_vec();
                let b: Vec<Option<i32>> = $mk(&x).titer().vshift(n, None).collect_trusted_to_vec();
                assert!(a.len() == N && b.len() == N, "both shifted results have the input length");
                let mut i = 0;
                while i < N {
                    assert!(a[i] == b[i], $msg);
                    i += 1;
                }
                n += 1;
            }
        }
    };
}
e2e_vshift!(e2e_vshift_vec_deq, |x: &[Option<i32>; N]| deque_rot(&x[..], 1), "vshift identical for Vec and wrapped VecDeque");
e2e_vshift!(e2e_vshift_vec_nd, |x: &[Option<i32>; N]| nd_owned(&x[..]), "vshift identical for Vec and Array1");

pub fn e2e_agg<const N: usize>() {
    let x = any_opt_small::<N>();
    let v: Vec<Option<i32>> = x.to_vec();
    let d = deque_rot(&x[..], 1);
    let st = nd_rev_storage(&x[..]);
    let r = st.slice(s![..;-1]);
    let (s0, m0) = (v.titer().vsum(), v.titer().vmax());
    assert!(x.titer().vsum() == s0 && x.titer().vmax() == m0, "vsum/vmax identical for [T; N]");
    assert!(d.titer().vsum() == s0 && d.titer().vmax() == m0, "vsum/vmax identical for a wrapped VecDeque");
    assert!(r.titer().vsum() == s0 && r.titer().vmax() == m0, "vsum/vmax identical for a reversed ndarray view");
    kani::cover!(s0.is_some() && m0 != s0, "a sum over several valid elements");
    kani::cover!(s0.is_none(), "all null");
}

/// the remaining containers (thorough tier)
pub fn e2e_agg2<const N: usize>() {
    let x = any_opt_small::<N>();
    let v: Vec<Option<i32>> = x.to_vec();
    let st2 = nd_step_storage(&x[..], 2);
    let r2 = st2.slice(s![..;2]);
    let arc = Arc::new(x.to_vec());
    let nd = nd_owned(&x[..]);
    let (s0, m0) = (v.titer().vsum(), v.titer().vmax());
    assert!(r2.titer().vsum() == s0 && r2.titer().vmax() == m0, "vsum/vmax identical for a strided ndarray view");
    assert!(arc.titer().vsum() == s0 && arc.titer().vmax() == m0, "vsum/vmax identical for Arc<Vec>");
    assert!(nd.titer().vsum() == s0 && nd.titer().vmax() == m0, "vsum/vmax identical for Array1");
    kani::cover!(s0.is_some() && m0 != s0, "a sum over several valid elements");
}

/// `ts_vsum` returned in output container O and written into an uninitialised O buffer: both equal the returned
/// Vec<f64> (one harness per output container type; `rd` reads element i of O).
macro_rules! e2e_out_tsvsum {
    ($name:ident, $O:ty, $retmsg:literal, $nonemsg:literal, $tomsg:literal) => {
        pub fn $name<const N: usize>() {
            let x = any_opt_small::<N>();
            let (w, mp) = any_params::<N>();
            let v: Vec<Option<i32>> = x.to_vec();
            let r0: Vec<f64> = v.ts_vsum(w, mp);
            assert!(r0.len() == N, "returned Vec has the input length");
            let ro: $O = v.ts_vsum(w, mp);
            let mut buf = <$O as Vec1<f64>>::uninit(N);
            let none = v.ts_vsum_to::<$O, f64>(w, mp, Some(<$O as Vec1<f64>>::uninit_ref_mut(&mut buf)));
            assert!(none.is_none(), $nonemsg);
            let wo: $O = unsafe { buf.assume_init() };
            assert!(ro.len() == N && wo.len() == N, "every output has the input length");
            let mut val = false;
            let mut i = 0;
            while i < N {
                assert!(same_f64(ro[i], r0[i]), $retmsg);
                assert!(same_f64(wo[i], r0[i]), $tomsg);
                val |= r0[i] == r0[i];
                i += 1;
            }
            kani::cover!(val && w < N, "a non-null sum with a window shorter than the series");
        }
    };
}
e2e_out_tsvsum!(e2e_out_tsvsum_vec, Vec<f64>, "second returned Vec equals returned Vec",
                "nothing is returned when the result goes to the caller's Vec buffer", "Vec buffer written via _to equals returned Vec");
e2e_out_tsvsum!(e2e_out_tsvsum_deq, VecDeque<f64>, "returned VecDeque equals returned Vec",
                "nothing is returned when the result goes to the caller's VecDeque buffer", "VecDeque buffer written via _to equals returned Vec");
e2e_out_tsvsum!(e2e_out_tsvsum_nd, Array1<f64>, "returned Array1 equals returned Vec",
                "nothing is returned when the result goes to the caller's Array1 buffer", "Array1 buffer written via _to equals returned Vec");

/// `rolling_apply` with a stateless pairing callback: returned vs `Some(out)` for the three output containers.
pub fn e2e_out_apply<const N: usize>() {
    let x: [i32; N] = kani::any();
    let w: usize = kani::any();
    kani::assume(w >= 1 && w <= N + 2);
    let v: Vec<i32> = x.to_vec();
    let f = |rm: Option<i32>, e: i32| (rm, e);
    type P = (Option<i32>, i32);
    let r0: Vec<P> = v.rolling_apply(w, f, None).unwrap();
    let rd: VecDeque<P> = v.rolling_apply(w, f, None).unwrap();
    let rn: Array1<P> = v.rolling_apply(w, f, None).unwrap();
    let mut bv = <Vec<P> as Vec1<P>>::uninit(N);
    let none = v.rolling_apply::<Vec<P>, _, _>(w, f, Some(<Vec<P> as Vec1<P>>::uninit_ref_mut(&mut bv)));
    assert!(none.is_none(), "rolling_apply returns None when writing to a Vec buffer");
    let wv: Vec<P> = unsafe { bv.assume_init() };
    let mut bd = <VecDeque<P> as Vec1<P>>::uninit(N);
    let none = v.rolling_apply::<VecDeque<P>, _, _>(w, f, Some(<VecDeque<P> as Vec1<P>>::uninit_ref_mut(&mut bd)));
    assert!(none.is_none(), "rolling_apply returns None when writing to a VecDeque buffer");
    let wd: VecDeque<P> = unsafe { bd.assume_init() };
    let mut bn = <Array1<P> as Vec1<P>>::uninit(N);
    let none = v.rolling_apply::<Array1<P>, _, _>(w, f, Some(<Array1<P> as Vec1<P>>::uninit_ref_mut(&mut bn)));
    assert!(none.is_none(), "rolling_apply returns None when writing to an Array1 buffer");
    let wn: Array1<P> = unsafe { bn.assume_init() };
    assert!(r0.len() == N && rd.len() == N && rn.len() == N && wv.len() == N && wd.len() == N && wn.len() == N,
            "every output has the input length");
    let mut steady = false;
    let mut i = 0;
    while i < N {
        assert!(rd[i] == r0[i], "rolling_apply: returned VecDeque equals returned Vec");
        assert!(rn[i] == r0[i], "rolling_apply: returned Array1 equals returned Vec");
        assert!(wv[i] == r0[i], "rolling_apply: Vec buffer equals returned Vec");
        assert!(wd[i] == r0[i], "rolling_apply: VecDeque buffer equals returned Vec");
        assert!(wn[i] == r0[i], "rolling_apply: Array1 buffer equals returned Vec");
        steady |= r0[i].0.is_some();
        i += 1;
    }
    kani::cover!(steady && w > 1, "an element leaves a window longer than one");
}

/// `ts_vrank` (window up to N + 2, pct / rev literal) from a Vec and from a wrapped VecDeque: the returned path of the deque goes
/// through the default `rolling_apply_idx` body, the Vec through the `_to` fast path (added after seeded change C07-m3)
pub fn e2e_tsvrank_vec_deq<const N: usize>(pct: bool, rev: bool) {
    let x = any_opt_small::<N>();
    let (w, mp) = any_params::<N>();
    let v: Vec<Option<i32>> = x.to_vec();
    let d = deque_rot(&x[..], 1);
    let a: Vec<f64> = v.ts_vrank(w, mp, pct, rev);
    let b: Vec<f64> = d.ts_vrank(w, mp, pct, rev);
    assert!(a.len() == N && b.len() == N, "both results have the input length");
    let mut val = false;
    let mut i = 0;
    while i < N {
        assert!(same_f64(a[i], b[i]), "element-wise identical ts_vrank from both input containers");
        val |= a[i] == a[i];
        i += 1;
    }
    kani::cover!(val && w > N, "a non-null rank with a window longer than the series");
    kani::cover!(val && w < N, "a non-null rank with a window shorter than the series");
}

#[kani::proof]
#[kani::stub(std::fmt::format, crate::util::fmt_stub)]
#[kani::unwind(8)]
pub fn c07_e2e_tsvrank_vec_deq_n2() {
    e2e_tsvrank_vec_deq::<2>(false, false);
}

#[cfg(feature = "thorough")]
#[kani::proof]
#[kani::stub(std::fmt::format, crate::util::fmt_stub)]
#[kani::unwind(9)]
pub fn c07_e2e_tsvrank_vec_deq_n3() {
    e2e_tsvrank_vec_deq::<3>(true, true);
}

/// `ts_vsum` written into a caller-supplied NON-CONTIGUOUS ndarray buffer (every second slot of a larger array): the view's
/// elements equal the returned Vec and the slots in between are untouched (added after seeded change C07-m1).
pub fn e2e_out_tsvsum_nd_strided<const N: usize, const M: usize>() {
    let x = any_opt_small::<N>();
    let (w, mp) = any_params::<N>();
    let v: Vec<Option<i32>> = x.to_vec();
    let r0: Vec<f64> = v.ts_vsum(w, mp);
    assert!(r0.len() == N, "returned Vec has the input length");
    let mut big: Array1<MaybeUninit<f64>> = Array1::from_elem(M, MaybeUninit::new(-12345.0));
    {
        let view = big.slice_mut(s![..;2]);
        let none = v.ts_vsum_to::<Array1<f64>, f64>(w, mp, Some(view));
        assert!(none.is_none(), "nothing is returned when the result goes to the caller's strided buffer");
    }
    let mut val = false;
    let mut i = 0;
    while i < N {
        let got = unsafe { big[2 * i].assume_init() };
        assert!(same_f64(got, r0[i]), "strided Array1 buffer written via _to equals returned Vec");
        if 2 * i + 1 < M {
            let gap = unsafe { big[2 * i + 1].assume_init() };
            assert!(gap == -12345.0, "slots between the elements of the strided buffer are untouched");
        }
        val |= r0[i] == r0[i];
        i += 1;
    }
    kani::cover!(val && w < N, "a non-null sum with a window shorter than the series");
}

#[kani::proof]
#[kani::stub(std::fmt::format, crate::util::fmt_stub)]
#[kani::unwind(10)]
pub fn c07_e2e_out_tsvsum_nd_strided_n2() {
    e2e_out_tsvsum_nd_strided::<2, 4>();
}

#[cfg(feature = "thorough")]
#[kani::proof]
#[kani::stub(std::fmt::format, crate::util::fmt_stub)]
#[kani::unwind(10)]
pub fn c07_e2e_out_tsvsum_nd_strided_n3() {
    e2e_out_tsvsum_nd_strided::<3, 6>();
}

include!("c07_gen.rs");
