//! C12 harnesses (see /verif/tools/HARNESS_GUIDE.md).
