//! C12 — quantiles, percentile ranks, ranks and partitions are true order statistics.
//!
//! Shape of every harness: the input is described by an array of integer *keys*
//! `[Option<i32>; N]` (`None` = null); the element array handed to tevec is derived from it
//! (`Option<i32>` as is, `f64` as `key as f64` / NaN). The oracle works on the keys only: the
//! insertion-sorted valid keys `s[0..n]` computed with plain loops.
//!
//! Input classes (`Alpha`): `Small` = keys in -2..=2 (forces ties), `Any` = unconstrained i32.
//!
//! Genuine defects of the pinned tree are isolated in their own harness / assertion message
//! (see the `*_single_*` quantile harnesses, "null element gets a null rank" and
//! "partition yields exactly k+1 entries").
use tea_agg::{AggValidExt, PercentileOfMethod, QuantileMethod, VecAggValidExt};
use tea_core::prelude::*;
use tea_map::MapValidVec;

use crate::util::*;

// ---------------------------------------------------------------------------------------------
// elements and keys
// ---------------------------------------------------------------------------------------------

pub trait Elt: Copy + IsNone + PartialEq + Cast<f64> + 'static {
    fn from_key(k: Option<i32>) -> Self;
    /// key of an element that came back from tevec (exact for the values used here)
    fn key(self) -> Option<i32>;
}

impl Elt for Option<i32> {
    fn from_key(k: Option<i32>) -> Self {
        k
    }
    fn key(self) -> Option<i32> {
        self
    }
}

impl Elt for f64 {
    fn from_key(k: Option<i32>) -> Self {
        match k {
            None => f64::NAN,
            Some(v) => v as f64,
        }
    }
    fn key(self) -> Option<i32> {
        if self != self { None } else { Some(self as i32) }
    }
}

/// symbolic keys: null mask unconstrained; values from -2..=2 (`small`) or any i32
pub fn sym_keys<const N: usize>(small: bool) -> [Option<i32>; N] {
    let mut k = [None; N];
    let mut i = 0;
    while i < N {
        if kani::any() {
            k[i] = Some(if small { small_i32(-2, 2) } else { kani::any() });
        }
        i += 1;
    }
    k
}

pub fn to_vec<T: Elt, const N: usize>(k: &[Option<i32>; N]) -> Vec<T> {
    let mut v = Vec::with_capacity(N);
    let mut i = 0;
    while i < N {
        v.push(T::from_key(k[i]));
        i += 1;
    }
    v
}

/// The valid keys in sorted order (ascending, or descending for `desc`) and their number, by rank
/// placement: slot p receives the valid key that has exactly p valid keys before it (ties broken by
/// position). Plain loops with literal indices only — an insertion sort would write at symbolic
/// indices, which is what made the first version of these harnesses 5x slower.
pub fn sorted_valid_dir<const N: usize>(k: &[Option<i32>; N], desc: bool) -> ([i32; N], usize) {
    let mut s = [0i32; N];
    let mut n = 0;
    let mut i = 0;
    while i < N {
        if let Some(x) = k[i] {
            n += 1;
            let mut before = 0usize;
            let mut j = 0;
            while j < N {
                if let Some(y) = k[j] {
                    if (!desc && y < x) || (desc && y > x) || (y == x && j < i) {
                        before += 1;
                    }
                }
                j += 1;
            }
            let mut p = 0;
            while p < N {
                if p == before {
                    s[p] = x;
                }
                p += 1;
            }
        }
        i += 1;
    }
    (s, n)
}

pub fn sorted_valid<const N: usize>(k: &[Option<i32>; N]) -> ([i32; N], usize) {
    sorted_valid_dir(k, false)
}

// ---------------------------------------------------------------------------------------------
// vquantile / vmedian
// ---------------------------------------------------------------------------------------------

/// the q grid as exact rationals a/b (and the f64 handed to tevec)
pub const QGRID: [(usize, usize, f64); 7] =
    [(0, 1, 0.0), (1, 4, 0.25), (1, 3, 1.0 / 3.0), (1, 2, 0.5), (2, 3, 2.0 / 3.0), (3, 4, 0.75), (1, 1, 1.0)];
pub const NMAX: usize = 6;

/// Reference position of the q-quantile among n sorted valid elements, in exact rational arithmetic:
/// (n-1)*a/b = lo + rem/b. Tables are indexed [n][qi] and evaluated at compile time, so a symbolic
/// (n, qi) costs one table lookup and no arithmetic in the solver.
pub struct QPos {
    pub lo: usize,
    pub hi: usize,
    pub fractional: bool,
    pub frac: f64,
    /// DESIGN 5.5: (n-1)q is an integer whose f64 evaluation is exact, or at least 1/4 away from an
    /// integer. Thirds are not representable, so a product with thirds that is an integer in exact
    /// arithmetic is "within rounding distance of an integer" and off the grid.
    pub on_grid: bool,
}

pub const fn qpos(n: usize, qi: usize) -> QPos {
    let (a, b, _) = QGRID[qi];
    if n == 0 {
        return QPos { lo: 0, hi: 0, fractional: false, frac: 0.0, on_grid: true };
    }
    let num = (n - 1) * a;
    let lo = num / b;
    let rem = num % b;
    let hi = if rem == 0 { lo } else { lo + 1 };
    let on_grid = if rem == 0 { b != 3 || num == 0 } else { 4 * rem >= b && 4 * (b - rem) >= b };
    QPos { lo, hi, fractional: rem != 0, frac: rem as f64 / b as f64, on_grid }
}

pub const fn qtable() -> [[QPos; 7]; NMAX] {
    let mut t = [const { [const { QPos { lo: 0, hi: 0, fractional: false, frac: 0.0, on_grid: true } }; 7] }; NMAX];
    let mut n = 0;
    while n < NMAX {
        let mut qi = 0;
        while qi < 7 {
            t[n][qi] = qpos(n, qi);
            qi += 1;
        }
        n += 1;
    }
    t
}
pub static QTAB: [[QPos; 7]; NMAX] = qtable();

pub fn method_of(m: u8) -> QuantileMethod {
    match m {
        0 => QuantileMethod::Linear,
        1 => QuantileMethod::Lower,
        2 => QuantileMethod::Higher,
        _ => QuantileMethod::MidPoint,
    }
}

/// Slice of the input space by the number n of valid elements. n == 1 is kept apart from the rest
/// for N >= 2 because the pinned tree has a defect exactly there (the shortcut reads slot 0).
#[derive(Clone, Copy, PartialEq)]
pub enum Split {
    All,
    NotOne,
    One,
}

pub fn assume_split(split: Split, n: usize) {
    match split {
        Split::All => {},
        Split::NotOne => kani::assume(n != 1),
        Split::One => kani::assume(n == 1),
    }
}

#[derive(Default)]
pub struct QFlags {
    pub empty: bool,
    pub fractional: bool,
    pub distinct_neighbours: bool,
    pub null_first: bool,
    pub upper_half: bool,
}

/// Judge one result of vquantile(q = QGRID[qi], method m) against the sorted valid keys s[0..n].
pub fn judge_quantile<const N: usize>(s: &[i32; N], n: usize, qi: usize, m: u8, r: f64, fl: &mut QFlags) {
    if n == 0 {
        fl.empty = true;
        assert!(r != r, "quantile of no valid element is null");
        return;
    }
    assert!(r == r, "quantile is null only when there is no valid element");
    let p = &QTAB[n][qi];
    let (lo, hi) = (s[p.lo] as f64, s[p.hi] as f64);
    if p.fractional {
        fl.fractional = true;
        if s[p.lo] != s[p.hi] {
            fl.distinct_neighbours = true;
        }
    }
    match m {
        1 => assert!(r == lo, "Lower is the sorted valid element at floor((n-1)q)"),
        2 => assert!(r == hi, "Higher is the sorted valid element at ceil((n-1)q)"),
        3 => assert!(r == (lo + hi) / 2., "MidPoint is the mean of the two neighbours"),
        _ => {
            if !p.fractional {
                assert!(r == lo, "Linear at an integral position is that element");
            } else {
                let want = lo + (hi - lo) * p.frac;
                let d = r - want;
                assert!(d <= 1e-9 && d >= -1e-9, "Linear is lo + (hi - lo) * frac");
            }
        },
    }
}

/// One vquantile call: q index symbolic over the bit mask `qs`, method symbolic over the bit mask
/// `methods`, valid count n symbolic via the null mask, restricted to the slice `split`.
pub fn quantile_case<T: Elt, const N: usize>(small: bool, qs: u8, methods: u8, split: Split, fl: &mut QFlags)
where
    T::Inner: Number,
{
    let keys: [Option<i32>; N] = sym_keys(small);
    let (s, n) = sorted_valid(&keys);
    assume_split(split, n);
    let qi: usize = kani::any();
    kani::assume(qi < 7 && (qs >> qi) & 1 == 1);
    kani::assume(QTAB[n][qi].on_grid);
    let m: u8 = kani::any();
    kani::assume(m < 4 && (methods >> m) & 1 == 1);
    let v: Vec<T> = to_vec(&keys);
    if N > 0 && keys[0].is_none() && n > 0 {
        fl.null_first = true;
    }
    if qi > 3 {
        fl.upper_half = true;
    }
    // no `.unwrap()`: its failure path formats and drops a `TError`, whose drop glue (an `io::Error`
    // variant owning a `Box<dyn Error>`) is a virtual call over the whole crate graph for CBMC
    let r = match v.vquantile(QGRID[qi].2, method_of(m)) {
        Ok(x) => x,
        Err(e) => {
            std::mem::forget(e);
            assert!(false, "q in [0, 1] is accepted");
            return;
        },
    };
    judge_quantile(&s, n, qi, m, r, fl);
}

/// vmedian == Linear quantile at 1/2
pub fn median_case<T: Elt, const N: usize>(small: bool, split: Split, fl: &mut QFlags)
where
    T::Inner: Number,
{
    let keys: [Option<i32>; N] = sym_keys(small);
    let (s, n) = sorted_valid(&keys);
    assume_split(split, n);
    let v: Vec<T> = to_vec(&keys);
    if N > 0 && keys[0].is_none() && n > 0 {
        fl.null_first = true;
    }
    let r = v.vmedian();
    judge_quantile(&s, n, 3, 0, r, fl);
}

// ---------------------------------------------------------------------------------------------
// vpercentile_of
// ---------------------------------------------------------------------------------------------

#[derive(Default)]
pub struct PFlags {
    pub tie: bool,
    pub absent: bool,
    pub with_null: bool,
}
impl PFlags {
    pub fn merge(&mut self, o: PFlags) {
        self.tie |= o.tie;
        self.absent |= o.absent;
        self.with_null |= o.with_null;
    }
}

pub fn percentile_case<T: Elt, const N: usize>(small: bool) -> PFlags
where
    T::Inner: Number + PartialOrd,
{
    let keys: [Option<i32>; N] = sym_keys(small);
    let score: Option<i32> = if kani::any() { Some(if small { small_i32(-3, 3) } else { kani::any() }) } else { None };
    let m: u8 = kani::any();
    kani::assume(m < 3);
    let method = match m {
        0 => PercentileOfMethod::Rank,
        1 => PercentileOfMethod::Weak,
        _ => PercentileOfMethod::Strict,
    };
    let v: Vec<T> = to_vec(&keys);
    let r = v.vpercentile_of(T::from_key(score), method);
    let (mut less, mut eq, mut tot) = (0usize, 0usize, 0usize);
    let mut i = 0;
    while i < N {
        if let (Some(x), Some(sc)) = (keys[i], score) {
            tot += 1;
            if x < sc {
                less += 1;
            } else if x == sc {
                eq += 1;
            }
        }
        i += 1;
    }
    let fl = PFlags { tie: eq > 1, absent: eq == 0 && tot > 0, with_null: tot > 0 && tot < N };
    if score.is_none() {
        assert!(r != r, "percentile of a null score is null");
        return fl;
    }
    if tot == 0 {
        assert!(r != r, "percentile among no valid element is null");
        return fl;
    }
    match m {
        0 => {
            // mean of the percentage ranks less+1 ..= less+eq of the matching scores; a score that
            // does not occur ranks like the elements below it
            if eq == 0 {
                assert!(r == less as f64 / tot as f64, "Rank of an absent score is less/total");
            } else {
                assert!(
                    r == (2 * less + eq + 1) as f64 / (2 * tot) as f64,
                    "Rank is the average percentage rank (less + (eq+1)/2)/total"
                );
            }
        },
        1 => assert!(r == (less + eq) as f64 / tot as f64, "Weak is (less+equal)/total"),
        _ => assert!(r == less as f64 / tot as f64, "Strict is less/total"),
    }
    fl
}

// ---------------------------------------------------------------------------------------------
// vrank
// ---------------------------------------------------------------------------------------------

#[derive(Default)]
pub struct RFlags {
    pub tie: bool,
    pub null_and_valid: bool,
}
impl RFlags {
    pub fn merge(&mut self, o: RFlags) {
        self.tie |= o.tie;
        self.null_and_valid |= o.null_and_valid;
    }
}

pub fn rank_case<T: Elt, const N: usize>(small: bool, pct: bool, rev: bool) -> RFlags
where
    T::Inner: PartialOrd,
{
    let keys: [Option<i32>; N] = sym_keys(small);
    let v: Vec<T> = to_vec(&keys);
    let out: Vec<f64> = v.vrank(pct, rev);
    assert!(out.len() == N, "rank output is input-length");
    let mut nv = 0usize;
    let mut i = 0;
    while i < N {
        if keys[i].is_some() {
            nv += 1;
        }
        i += 1;
    }
    let mut fl = RFlags { tie: false, null_and_valid: nv > 0 && nv < N };
    let mut i = 0;
    while i < N {
        let r = out[i];
        match keys[i] {
            None => assert!(r != r, "null element gets a null rank"),
            Some(x) => {
                let (mut before, mut eq) = (0usize, 0usize);
                let mut j = 0;
                while j < N {
                    if let Some(y) = keys[j] {
                        if (!rev && y < x) || (rev && y > x) {
                            before += 1;
                        } else if y == x {
                            eq += 1;
                        }
                    }
                    j += 1;
                }
                if eq > 1 {
                    fl.tie = true;
                }
                let twice = (2 * before + eq + 1) as f64;
                if pct {
                    assert!(r == twice / (2 * nv) as f64, "pct rank is the average rank over the valid count");
                } else {
                    assert!(r * 2.0 == twice, "rank is the average rank: 2*rank == 2*before + equal + 1");
                }
            },
        }
        i += 1;
    }
    fl
}

// ---------------------------------------------------------------------------------------------
// vpartition / varg_partition
// ---------------------------------------------------------------------------------------------

#[derive(Default)]
pub struct PartFlags {
    /// fewer than k+1 valid elements: pads required
    pub padded: bool,
    /// more than k+1 valid elements: a genuine selection
    pub selected: bool,
    pub null_in_input: bool,
    pub k_beyond_len: bool,
    /// some call produced a number of entries other than k+1. Asserted by the harness *after* all calls
    /// (Kani cuts the path at a failed assertion; the pinned vpartition fails this for every input of the
    /// sorted k+1 > len calls, which would hide everything behind the first such call).
    pub count_bad: bool,
}
impl PartFlags {
    pub fn merge(&mut self, o: PartFlags) {
        self.padded |= o.padded;
        self.selected |= o.selected;
        self.null_in_input |= o.null_in_input;
        self.k_beyond_len |= o.k_beyond_len;
        self.count_bad |= o.count_bad;
    }
}

/// Shared judgement of the produced entries. `got[j]` (j < cnt) is the key of the j-th entry (None =
/// pad), `want[0..n]` the valid keys in the requested direction. `k` is a literal at the call site.
fn judge_entries<const N: usize, const M: usize>(
    got: &[Option<i32>; M],
    cnt: usize,
    want: &[i32; N],
    n: usize,
    k: usize,
    sort: bool,
    arg: bool,
) {
    let take = umin(k + 1, n);
    // everything is stated on the entries actually produced (at most k+1 were read)
    let mut nn = 0usize;
    let mut j = 0;
    while j < k + 1 {
        if j < cnt && got[j].is_some() {
            nn += 1;
        }
        j += 1;
    }
    if arg {
        assert!(nn == take, "non-pad indices number min(k+1, valid count): pads only when fewer exist");
    } else {
        assert!(nn == take, "non-pad entries number min(k+1, valid count): pads only when fewer exist");
    }
    // multiset equality by counting every wanted value on both sides
    let mut j = 0;
    while j < k + 1 && j < N {
        if j < take {
            let w = want[j];
            let (mut cg, mut cw) = (0usize, 0usize);
            let mut i = 0;
            while i < k + 1 {
                if i < cnt && got[i] == Some(w) {
                    cg += 1;
                }
                if i < N && i < take && want[i] == w {
                    cw += 1;
                }
                i += 1;
            }
            if arg {
                assert!(cg == cw, "indexed elements are the k+1 extreme valid elements (multiset)");
            } else {
                assert!(cg == cw, "non-pad entries are the k+1 extreme valid elements (multiset)");
            }
        }
        j += 1;
    }
    if sort {
        let mut j = 0;
        while j < k + 1 {
            if j < cnt {
                if j < take && j < N {
                    if arg {
                        assert!(got[j] == Some(want[j]), "sorted arg-partition lists the extremes in order");
                    } else {
                        assert!(got[j] == Some(want[j]), "sorted partition lists the extremes in order");
                    }
                } else if arg {
                    assert!(got[j].is_none(), "sorted arg-partition has its pads at the end");
                } else {
                    assert!(got[j].is_none(), "sorted partition has its pads at the end");
                }
            }
            j += 1;
        }
    }
}

/// `M` must be N + 3. `k`, `sort`, `rev` are literals at every call site: a symbolic flag makes the
/// boxed iterator's dynamic type symbolic, and every `next()` then expands into all five iterator
/// pipelines (measured: 150-400 s instead of 25 s).
pub fn partition_case<T: Elt, const N: usize, const M: usize>(keys: &[Option<i32>; N], k: usize, sort: bool, rev: bool) -> PartFlags
where
    T::Inner: PartialOrd,
{
    let (want, n) = sorted_valid_dir(keys, rev);
    let v: Vec<T> = to_vec(keys);
    let mut got: [Option<i32>; M] = [None; M];
    let mut cnt = 0usize;
    {
        let mut it = v.vpartition(k, sort, rev);
        // exactly k+2 reads: k+1 entries and the end marker
        let mut c = 0;
        while c < k + 2 {
            match it.next() {
                Some(x) => {
                    got[c] = x.key();
                    cnt = c + 1;
                },
                None => break,
            }
            c += 1;
        }
        // not dropped: dropping a `Box<dyn TrustedLen>` is a virtual call over every candidate pipeline
        std::mem::forget(it);
    }
    let fl = PartFlags { padded: n < k + 1, selected: n > k + 1, null_in_input: n < N, k_beyond_len: k + 1 > N, count_bad: cnt != k + 1 };
    judge_entries(&got, cnt, &want, n, k, sort, false);
    fl
}

pub fn arg_partition_case<T: Elt, const N: usize, const M: usize>(keys: &[Option<i32>; N], k: usize, sort: bool, rev: bool) -> PartFlags
where
    T::Inner: Number,
{
    let (want, n) = sorted_valid_dir(keys, rev);
    let v: Vec<T> = to_vec(keys);
    let mut ixs: [i32; M] = [-1; M];
    let mut cnt = 0usize;
    {
        let mut it = v.varg_partition(k, sort, rev);
        let mut c = 0;
        while c < k + 2 {
            match it.next() {
                Some(x) => {
                    ixs[c] = x;
                    cnt = c + 1;
                },
                None => break,
            }
            c += 1;
        }
        // not dropped: dropping a `Box<dyn TrustedLen>` is a virtual call over every candidate pipeline
        std::mem::forget(it);
    }
    let fl = PartFlags { padded: n < k + 1, selected: n > k + 1, null_in_input: n < N, k_beyond_len: k + 1 > N, count_bad: cnt != k + 1 };
    // indices -> keys; pads are -1
    let mut got: [Option<i32>; M] = [None; M];
    let mut j = 0;
    while j < k + 1 {
        if j < cnt {
            let ix = ixs[j];
            if ix != -1 {
                assert!(ix >= 0 && (ix as usize) < N, "index entries are in range (pads are -1)");
                if ix >= 0 && (ix as usize) < N {
                    let key = keys[ix as usize];
                    assert!(key.is_some(), "index entries never point to a null element");
                    got[j] = key;
                }
                let mut i = 0;
                while i < j {
                    assert!(ixs[i] != ix, "index entries are distinct");
                    i += 1;
                }
            }
        }
        j += 1;
    }
    judge_entries(&got, cnt, &want, n, k, sort, true);
    fl
}

include!("c12_gen.rs");
