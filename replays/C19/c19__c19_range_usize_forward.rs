// counterexamples for harness c19::c19_range_usize_forward (property C19); replay: ./check C19 --replay <this file>
// features: c19
#![allow(unused_imports)]
use crate::c19::*;

/// Test generated for harness `c19::c19_range_usize_forward` 
///
/// Check for `assertion`: ""range: as many elements as progression terms strictly before end""
///
/// # Warning
///
/// Concrete playback tests combined with stubs or contracts is highly
/// experimental, and subject to change.
///
/// The original harness has stubs which are not applied to this test.
/// This may cause a mismatch of non-deterministic values if the stub
/// creates any non-deterministic value.
/// The execution path may also differ, which can be used to refine the stub
/// logic.

#[test]
fn kani_concrete_playback_c19_range_usize_forward_7845377126170706016() {
    let concrete_vals: Vec<Vec<u8>> = vec![
        // 7ul
        vec![7, 0, 0, 0, 0, 0, 0, 0],
        // 20ul
        vec![20, 0, 0, 0, 0, 0, 0, 0],
        // 4ul
        vec![4, 0, 0, 0, 0, 0, 0, 0],
    ];
    kani::concrete_playback_run(concrete_vals, c19_range_usize_forward);
}

/// Test generated for harness `c19::c19_range_usize_forward` 
///
/// Check for `cover`: "span divisible by the step"
///
/// # Warning
///
/// Concrete playback tests combined with stubs or contracts is highly
/// experimental, and subject to change.
///
/// The original harness has stubs which are not applied to this test.
/// This may cause a mismatch of non-deterministic values if the stub
/// creates any non-deterministic value.
/// The execution path may also differ, which can be used to refine the stub
/// logic.

#[test]
fn kani_concrete_playback_c19_range_usize_forward_1501694898309740985() {
    let concrete_vals: Vec<Vec<u8>> = vec![
        // 3ul
        vec![3, 0, 0, 0, 0, 0, 0, 0],
        // 18ul
        vec![18, 0, 0, 0, 0, 0, 0, 0],
        // 3ul
        vec![3, 0, 0, 0, 0, 0, 0, 0],
    ];
    kani::concrete_playback_run(concrete_vals, c19_range_usize_forward);
}

/// Test generated for harness `c19::c19_range_usize_forward` 
///
/// Check for `cover`: "empty span (start == end)"
///
/// # Warning
///
/// Concrete playback tests combined with stubs or contracts is highly
/// experimental, and subject to change.
///
/// The original harness has stubs which are not applied to this test.
/// This may cause a mismatch of non-deterministic values if the stub
/// creates any non-deterministic value.
/// The execution path may also differ, which can be used to refine the stub
/// logic.

#[test]
fn kani_concrete_playback_c19_range_usize_forward_7555187822602998692() {
    let concrete_vals: Vec<Vec<u8>> = vec![
        // 0ul
        vec![0, 0, 0, 0, 0, 0, 0, 0],
        // 0ul
        vec![0, 0, 0, 0, 0, 0, 0, 0],
        // 17ul
        vec![17, 0, 0, 0, 0, 0, 0, 0],
    ];
    kani::concrete_playback_run(concrete_vals, c19_range_usize_forward);
}
