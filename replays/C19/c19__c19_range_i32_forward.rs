// counterexamples for harness c19::c19_range_i32_forward (property C19); replay: ./check C19 --replay <this file>
// features: c19
#![allow(unused_imports)]
use crate::c19::*;

/// Test generated for harness `c19::c19_range_i32_forward` 
///
/// Check for `assertion`: ""range: as many elements as progression terms strictly before end""
///
/// # Warning
///
/// Concrete playback tests combined with stubs or contracts is highly
/// experimental, and subject to change.
///
/// The original harness has stubs which are not applied to this test.
/// This may cause a mismatch of non-deterministic values if the stub
/// creates any non-deterministic value.
/// The execution path may also differ, which can be used to refine the stub
/// logic.

#[test]
fn kani_concrete_playback_c19_range_i32_forward_2822485984473912265() {
    let concrete_vals: Vec<Vec<u8>> = vec![
        // -5
        vec![251, 255, 255, 255],
        // -7
        vec![249, 255, 255, 255],
        // -13
        vec![243, 255, 255, 255],
    ];
    kani::concrete_playback_run(concrete_vals, c19_range_i32_forward);
}

/// Test generated for harness `c19::c19_range_i32_forward` 
///
/// Check for `cover`: "span divisible by the step"
///
/// # Warning
///
/// Concrete playback tests combined with stubs or contracts is highly
/// experimental, and subject to change.
///
/// The original harness has stubs which are not applied to this test.
/// This may cause a mismatch of non-deterministic values if the stub
/// creates any non-deterministic value.
/// The execution path may also differ, which can be used to refine the stub
/// logic.

#[test]
fn kani_concrete_playback_c19_range_i32_forward_7623152970473357432() {
    let concrete_vals: Vec<Vec<u8>> = vec![
        // -3
        vec![253, 255, 255, 255],
        // -11
        vec![245, 255, 255, 255],
        // -2
        vec![254, 255, 255, 255],
    ];
    kani::concrete_playback_run(concrete_vals, c19_range_i32_forward);
}

/// Test generated for harness `c19::c19_range_i32_forward` 
///
/// Check for `cover`: "empty span (start == end)"
///
/// # Warning
///
/// Concrete playback tests combined with stubs or contracts is highly
/// experimental, and subject to change.
///
/// The original harness has stubs which are not applied to this test.
/// This may cause a mismatch of non-deterministic values if the stub
/// creates any non-deterministic value.
/// The execution path may also differ, which can be used to refine the stub
/// logic.

#[test]
fn kani_concrete_playback_c19_range_i32_forward_14251960313633984441() {
    let concrete_vals: Vec<Vec<u8>> = vec![
        // -13
        vec![243, 255, 255, 255],
        // -13
        vec![243, 255, 255, 255],
        // -5
        vec![251, 255, 255, 255],
    ];
    kani::concrete_playback_run(concrete_vals, c19_range_i32_forward);
}
