// counterexamples for harness c19::c19_range_i64_forward (property C19); replay: ./check C19 --replay <this file>
// features: c19
#![allow(unused_imports)]
use crate::c19::*;

/// Test generated for harness `c19::c19_range_i64_forward` 
///
/// Check for `assertion`: ""range: as many elements as progression terms strictly before end""
///
/// # Warning
///
/// Concrete playback tests combined with stubs or contracts is highly
/// experimental, and subject to change.
///
/// The original harness has stubs which are not applied to this test.
/// This may cause a mismatch of non-deterministic values if the stub
/// creates any non-deterministic value.
/// The execution path may also differ, which can be used to refine the stub
/// logic.

#[test]
fn kani_concrete_playback_c19_range_i64_forward_4250847325301770672() {
    let concrete_vals: Vec<Vec<u8>> = vec![
        // 3
        vec![3, 0, 0, 0, 0, 0, 0, 0],
        // 0
        vec![0, 0, 0, 0, 0, 0, 0, 0],
        // -8
        vec![248, 255, 255, 255, 255, 255, 255, 255],
    ];
    kani::concrete_playback_run(concrete_vals, c19_range_i64_forward);
}

/// Test generated for harness `c19::c19_range_i64_forward` 
///
/// Check for `cover`: "span divisible by the step"
///
/// # Warning
///
/// Concrete playback tests combined with stubs or contracts is highly
/// experimental, and subject to change.
///
/// The original harness has stubs which are not applied to this test.
/// This may cause a mismatch of non-deterministic values if the stub
/// creates any non-deterministic value.
/// The execution path may also differ, which can be used to refine the stub
/// logic.

#[test]
fn kani_concrete_playback_c19_range_i64_forward_12983786029419138231() {
    let concrete_vals: Vec<Vec<u8>> = vec![
        // 0
        vec![0, 0, 0, 0, 0, 0, 0, 0],
        // -20
        vec![236, 255, 255, 255, 255, 255, 255, 255],
        // -5
        vec![251, 255, 255, 255, 255, 255, 255, 255],
    ];
    kani::concrete_playback_run(concrete_vals, c19_range_i64_forward);
}

/// Test generated for harness `c19::c19_range_i64_forward` 
///
/// Check for `cover`: "empty span (start == end)"
///
/// # Warning
///
/// Concrete playback tests combined with stubs or contracts is highly
/// experimental, and subject to change.
///
/// The original harness has stubs which are not applied to this test.
/// This may cause a mismatch of non-deterministic values if the stub
/// creates any non-deterministic value.
/// The execution path may also differ, which can be used to refine the stub
/// logic.

#[test]
fn kani_concrete_playback_c19_range_i64_forward_15506382447154921702() {
    let concrete_vals: Vec<Vec<u8>> = vec![
        // 0
        vec![0, 0, 0, 0, 0, 0, 0, 0],
        // 0
        vec![0, 0, 0, 0, 0, 0, 0, 0],
        // -16
        vec![240, 255, 255, 255, 255, 255, 255, 255],
    ];
    kani::concrete_playback_run(concrete_vals, c19_range_i64_forward);
}
