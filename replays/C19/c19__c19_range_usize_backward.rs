// counterexamples for harness c19::c19_range_usize_backward (property C19); replay: ./check C19 --replay <this file>
// features: c19
#![allow(unused_imports)]
use crate::c19::*;

/// Test generated for harness `c19::c19_range_usize_backward` 
///
/// Check for `assertion`: "attempt to subtract with overflow"
///
/// # Warning
///
/// Concrete playback tests combined with stubs or contracts is highly
/// experimental, and subject to change.
///
/// The original harness has stubs which are not applied to this test.
/// This may cause a mismatch of non-deterministic values if the stub
/// creates any non-deterministic value.
/// The execution path may also differ, which can be used to refine the stub
/// logic.

#[test]
fn kani_concrete_playback_c19_range_usize_backward_1323560286307989531() {
    let concrete_vals: Vec<Vec<u8>> = vec![
        // 8ul
        vec![8, 0, 0, 0, 0, 0, 0, 0],
        // 6ul
        vec![6, 0, 0, 0, 0, 0, 0, 0],
        // 2ul
        vec![2, 0, 0, 0, 0, 0, 0, 0],
    ];
    kani::concrete_playback_run(concrete_vals, c19_range_usize_backward);
}
