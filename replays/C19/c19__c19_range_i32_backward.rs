// counterexamples for harness c19::c19_range_i32_backward (property C19); replay: ./check C19 --replay <this file>
// features: c19
#![allow(unused_imports)]
use crate::c19::*;

/// Test generated for harness `c19::c19_range_i32_backward` 
///
/// Check for `assertion`: "This is a placeholder message; Kani doesn't support message formatted at runtime"
///
/// # Warning
///
/// Concrete playback tests combined with stubs or contracts is highly
/// experimental, and subject to change.
///
/// The original harness has stubs which are not applied to this test.
/// This may cause a mismatch of non-deterministic values if the stub
/// creates any non-deterministic value.
/// The execution path may also differ, which can be used to refine the stub
/// logic.

#[test]
fn kani_concrete_playback_c19_range_i32_backward_13206718619252817550() {
    let concrete_vals: Vec<Vec<u8>> = vec![
        // 20
        vec![20, 0, 0, 0],
        // 17
        vec![17, 0, 0, 0],
        // 2
        vec![2, 0, 0, 0],
    ];
    kani::concrete_playback_run(concrete_vals, c19_range_i32_backward);
}

/// Test generated for harness `c19::c19_range_i32_backward` 
///
/// Check for `cover`: "end less than one step behind start"
///
/// # Warning
///
/// Concrete playback tests combined with stubs or contracts is highly
/// experimental, and subject to change.
///
/// The original harness has stubs which are not applied to this test.
/// This may cause a mismatch of non-deterministic values if the stub
/// creates any non-deterministic value.
/// The execution path may also differ, which can be used to refine the stub
/// logic.

#[test]
fn kani_concrete_playback_c19_range_i32_backward_14032118924222124931() {
    let concrete_vals: Vec<Vec<u8>> = vec![
        // 17
        vec![17, 0, 0, 0],
        // 8
        vec![8, 0, 0, 0],
        // 15
        vec![15, 0, 0, 0],
    ];
    kani::concrete_playback_run(concrete_vals, c19_range_i32_backward);
}
