// counterexamples for harness c05::c05_len_minmax_i32out_n1 (property C05); replay: ./check C05 --replay <this file>
// features: c05
#![allow(unused_imports)]
use crate::c05::*;

/// Test generated for harness `c05::c05_len_minmax_i32out_n1` 
///
/// Check for `assertion`: "Cannot call none() on a non-float type"
///
/// # Warning
///
/// Concrete playback tests combined with stubs or contracts is highly
/// experimental, and subject to change.
///
/// The original harness has stubs which are not applied to this test.
/// This may cause a mismatch of non-deterministic values if the stub
/// creates any non-deterministic value.
/// The execution path may also differ, which can be used to refine the stub
/// logic.

#[test]
fn kani_concrete_playback_c05_len_minmax_i32out_n1_10624475863012770084() {
    let concrete_vals: Vec<Vec<u8>> = vec![
        // 1ul
        vec![1, 0, 0, 0, 0, 0, 0, 0],
        // 0
        vec![0],
        // 1ul
        vec![1, 0, 0, 0, 0, 0, 0, 0],
        // 0
        vec![0],
    ];
    kani::concrete_playback_run(concrete_vals, c05_len_minmax_i32out_n1);
}
