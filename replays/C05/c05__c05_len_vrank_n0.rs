// counterexamples for harness c05::c05_len_vrank_n0 (property C05); replay: ./check C05 --replay <this file>
// features: c05
#![allow(unused_imports)]
use crate::c05::*;

/// Test generated for harness `c05::c05_len_vrank_n0` 
///
/// Check for `assertion`: "attempt to subtract with overflow"
///
/// # Warning
///
/// Concrete playback tests combined with stubs or contracts is highly
/// experimental, and subject to change.
///
/// The original harness has stubs which are not applied to this test.
/// This may cause a mismatch of non-deterministic values if the stub
/// creates any non-deterministic value.
/// The execution path may also differ, which can be used to refine the stub
/// logic.

#[test]
fn kani_concrete_playback_c05_len_vrank_n0_654095884910671421() {
    let concrete_vals: Vec<Vec<u8>> = vec![
        // 2ul
        vec![2, 0, 0, 0, 0, 0, 0, 0],
        // 1
        vec![1],
        // 2ul
        vec![2, 0, 0, 0, 0, 0, 0, 0],
        // 1
        vec![1],
        // 1
        vec![1],
    ];
    kani::concrete_playback_run(concrete_vals, c05_len_vrank_n0);
}
