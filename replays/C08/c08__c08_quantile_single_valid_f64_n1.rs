// counterexamples for harness c08::c08_quantile_single_valid_f64_n1 (property C08); replay: ./check C08 --replay <this file>
// features: c08
#![allow(unused_imports)]
use crate::c08::*;

/// Test generated for harness `c08::c08_quantile_single_valid_f64_n1` 
///
/// Check for `cover`: "the null is inserted after the single valid element"
///
/// # Warning
///
/// Concrete playback tests combined with stubs or contracts is highly
/// experimental, and subject to change.
///
/// The original harness has stubs which are not applied to this test.
/// This may cause a mismatch of non-deterministic values if the stub
/// creates any non-deterministic value.
/// The execution path may also differ, which can be used to refine the stub
/// logic.

#[test]
fn kani_concrete_playback_c08_quantile_single_valid_f64_n1_16366478324427584403() {
    let concrete_vals: Vec<Vec<u8>> = vec![
        // 1
        vec![1, 0, 0, 0],
        // 1
        vec![1],
        // 1ul
        vec![1, 0, 0, 0, 0, 0, 0, 0],
        // 1ul
        vec![1, 0, 0, 0, 0, 0, 0, 0],
        // 1
        vec![1],
    ];
    kani::concrete_playback_run(concrete_vals, c08_quantile_single_valid_f64_n1);
}

/// Test generated for harness `c08::c08_quantile_single_valid_f64_n1` 
///
/// Check for `assertion`: ""vquantile of a single valid element is unchanged by an inserted null""
///
/// # Warning
///
/// Concrete playback tests combined with stubs or contracts is highly
/// experimental, and subject to change.
///
/// The original harness has stubs which are not applied to this test.
/// This may cause a mismatch of non-deterministic values if the stub
/// creates any non-deterministic value.
/// The execution path may also differ, which can be used to refine the stub
/// logic.

#[test]
fn kani_concrete_playback_c08_quantile_single_valid_f64_n1_12039983938904789911() {
    let concrete_vals: Vec<Vec<u8>> = vec![
        // 1
        vec![1, 0, 0, 0],
        // 1
        vec![1],
        // 0ul
        vec![0, 0, 0, 0, 0, 0, 0, 0],
        // 1ul
        vec![1, 0, 0, 0, 0, 0, 0, 0],
        // 1
        vec![1],
    ];
    kani::concrete_playback_run(concrete_vals, c08_quantile_single_valid_f64_n1);
}
