// counterexamples for harness c08::c08_quantile_single_valid_opti32_n1 (property C08); replay: ./check C08 --replay <this file>
// features: c08
#![allow(unused_imports)]
use crate::c08::*;

/// Test generated for harness `c08::c08_quantile_single_valid_opti32_n1` 
///
/// Check for `assertion`: ""vquantile of a single valid element is unchanged by an inserted null""
///
/// # Warning
///
/// Concrete playback tests combined with stubs or contracts is highly
/// experimental, and subject to change.
///
/// The original harness has stubs which are not applied to this test.
/// This may cause a mismatch of non-deterministic values if the stub
/// creates any non-deterministic value.
/// The execution path may also differ, which can be used to refine the stub
/// logic.

#[test]
fn kani_concrete_playback_c08_quantile_single_valid_opti32_n1_7036451615313357579() {
    let concrete_vals: Vec<Vec<u8>> = vec![
        // -1
        vec![255, 255, 255, 255],
        // 1
        vec![1],
        // 0ul
        vec![0, 0, 0, 0, 0, 0, 0, 0],
        // 2ul
        vec![2, 0, 0, 0, 0, 0, 0, 0],
        // 2
        vec![2],
    ];
    kani::concrete_playback_run(concrete_vals, c08_quantile_single_valid_opti32_n1);
}

/// Test generated for harness `c08::c08_quantile_single_valid_opti32_n1` 
///
/// Check for `cover`: "the null is inserted after the single valid element"
///
/// # Warning
///
/// Concrete playback tests combined with stubs or contracts is highly
/// experimental, and subject to change.
///
/// The original harness has stubs which are not applied to this test.
/// This may cause a mismatch of non-deterministic values if the stub
/// creates any non-deterministic value.
/// The execution path may also differ, which can be used to refine the stub
/// logic.

#[test]
fn kani_concrete_playback_c08_quantile_single_valid_opti32_n1_6763074622124178953() {
    let concrete_vals: Vec<Vec<u8>> = vec![
        // 2
        vec![2, 0, 0, 0],
        // 1
        vec![1],
        // 1ul
        vec![1, 0, 0, 0, 0, 0, 0, 0],
        // 2ul
        vec![2, 0, 0, 0, 0, 0, 0, 0],
        // 2
        vec![2],
    ];
    kani::concrete_playback_run(concrete_vals, c08_quantile_single_valid_opti32_n1);
}
