// counterexamples for harness c09::c09_vshift_steps_abs (property C09); replay: ./check C09 --replay <this file>
// features: c09
#![allow(unused_imports)]
use crate::c09::*;

/// Test generated for harness `c09::c09_vshift_steps_abs` 
///
/// Check for `assertion`: ""the hint drops by exactly one with every yielded item""

#[test]
fn kani_concrete_playback_c09_vshift_steps_abs_14757801959689062982() {
    let concrete_vals: Vec<Vec<u8>> = vec![
        // 3ul
        vec![3, 0, 0, 0, 0, 0, 0, 0],
        // -2
        vec![254, 255, 255, 255],
        // 1
        vec![1],
        // 1
        vec![1],
        // -1
        vec![255, 255, 255, 255],
        // 1
        vec![1],
        // -1
        vec![255, 255, 255, 255],
        // 0
        vec![0],
        // 1
        vec![1],
        // -1
        vec![255, 255, 255, 255],
    ];
    kani::concrete_playback_run(concrete_vals, c09_vshift_steps_abs);
}
