// counterexamples for harness c09::c09_vshift_steps_vec_n3 (property C09); replay: ./check C09 --replay <this file>
// features: c09
#![allow(unused_imports)]
use crate::c09::*;

/// Test generated for harness `c09::c09_vshift_steps_vec_n3` 
///
/// Check for `cover`: "lag i32::MIN"

#[test]
fn kani_concrete_playback_c09_vshift_steps_vec_n3_7915365009185071260() {
    let concrete_vals: Vec<Vec<u8>> = vec![
        // 1
        vec![1],
        // -1
        vec![255, 255, 255, 255],
        // 1
        vec![1],
        // -1
        vec![255, 255, 255, 255],
        // 1
        vec![1],
        // -1
        vec![255, 255, 255, 255],
        // -2147483648
        vec![0, 0, 0, 128],
        // 1
        vec![1],
        // 1
        vec![1],
        // 0
        vec![0, 0, 0, 0],
    ];
    kani::concrete_playback_run(concrete_vals, c09_vshift_steps_vec_n3);
}

/// Test generated for harness `c09::c09_vshift_steps_vec_n3` 
///
/// Check for `cover`: "lag i32::MAX"

#[test]
fn kani_concrete_playback_c09_vshift_steps_vec_n3_5219944680884428990() {
    let concrete_vals: Vec<Vec<u8>> = vec![
        // 0
        vec![0],
        // 0
        vec![0],
        // 0
        vec![0],
        // 2147483647
        vec![255, 255, 255, 127],
        // 0
        vec![0],
    ];
    kani::concrete_playback_run(concrete_vals, c09_vshift_steps_vec_n3);
}

/// Test generated for harness `c09::c09_vshift_steps_vec_n3` 
///
/// Check for `cover`: "|n| > len"

#[test]
fn kani_concrete_playback_c09_vshift_steps_vec_n3_16372847863520282051() {
    let concrete_vals: Vec<Vec<u8>> = vec![
        // 1
        vec![1],
        // -1
        vec![255, 255, 255, 255],
        // 1
        vec![1],
        // -1
        vec![255, 255, 255, 255],
        // 1
        vec![1],
        // -1
        vec![255, 255, 255, 255],
        // -1073741825
        vec![255, 255, 255, 191],
        // 1
        vec![1],
        // 1
        vec![1],
        // 0
        vec![0, 0, 0, 0],
    ];
    kani::concrete_playback_run(concrete_vals, c09_vshift_steps_vec_n3);
}

/// Test generated for harness `c09::c09_vshift_steps_vec_n3` 
///
/// Check for `cover`: "n == 0"

#[test]
fn kani_concrete_playback_c09_vshift_steps_vec_n3_9628007526836400281() {
    let concrete_vals: Vec<Vec<u8>> = vec![
        // 0
        vec![0],
        // 0
        vec![0],
        // 0
        vec![0],
        // 0
        vec![0, 0, 0, 0],
        // 1
        vec![1],
        // 1
        vec![1],
        // 3145728
        vec![0, 0, 48, 0],
    ];
    kani::concrete_playback_run(concrete_vals, c09_vshift_steps_vec_n3);
}

/// Test generated for harness `c09::c09_vshift_steps_vec_n3` 
///
/// Check for `assertion`: ""the hint drops by exactly one with every yielded item""

#[test]
fn kani_concrete_playback_c09_vshift_steps_vec_n3_9515076254224291810() {
    let concrete_vals: Vec<Vec<u8>> = vec![
        // 0
        vec![0],
        // 0
        vec![0],
        // 0
        vec![0],
        // 2
        vec![2, 0, 0, 0],
        // 1
        vec![1],
        // 1
        vec![1],
        // 11534336
        vec![0, 0, 176, 0],
    ];
    kani::concrete_playback_run(concrete_vals, c09_vshift_steps_vec_n3);
}
