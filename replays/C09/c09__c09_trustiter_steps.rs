// counterexamples for harness c09::c09_trustiter_steps (property C09); replay: ./check C09 --replay <this file>
// features: c09
#![allow(unused_imports)]
use crate::c09::*;

/// Test generated for harness `c09::c09_trustiter_steps` 
///
/// Check for `assertion`: ""the hint drops by exactly one with every yielded item""

#[test]
fn kani_concrete_playback_c09_trustiter_steps_18242737393416302926() {
    let concrete_vals: Vec<Vec<u8>> = vec![
        // 1ul
        vec![1, 0, 0, 0, 0, 0, 0, 0],
        // 0
        vec![0],
    ];
    kani::concrete_playback_run(concrete_vals, c09_trustiter_steps);
}
