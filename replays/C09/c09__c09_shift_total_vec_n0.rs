// counterexamples for harness c09::c09_shift_total_vec_n0 (property C09); replay: ./check C09 --replay <this file>
// features: c09
#![allow(unused_imports)]
use crate::c09::*;

/// Test generated for harness `c09::c09_shift_total_vec_n0` 
///
/// Check for `assertion`: ""front iteration yields exactly the announced number of items""

#[test]
fn kani_concrete_playback_c09_shift_total_vec_n0_13502988902596388167() {
    let concrete_vals: Vec<Vec<u8>> = vec![
        // -1
        vec![255, 255, 255, 255],
        // -1
        vec![255, 255, 255, 255],
    ];
    kani::concrete_playback_run(concrete_vals, c09_shift_total_vec_n0);
}

/// Test generated for harness `c09::c09_shift_total_vec_n0` 
///
/// Check for `assertion`: "attempt to subtract with overflow"

#[test]
fn kani_concrete_playback_c09_shift_total_vec_n0_15963320130724661022() {
    let concrete_vals: Vec<Vec<u8>> = vec![
        // 1
        vec![1, 0, 0, 0],
        // 1849992584
        vec![136, 165, 68, 110],
    ];
    kani::concrete_playback_run(concrete_vals, c09_shift_total_vec_n0);
}

/// Test generated for harness `c09::c09_shift_total_vec_n0` 
///
/// Check for `cover`: "n == 0"

#[test]
fn kani_concrete_playback_c09_shift_total_vec_n0_18442678969916110769() {
    let concrete_vals: Vec<Vec<u8>> = vec![
        // 0
        vec![0, 0, 0, 0],
        // 1849992584
        vec![136, 165, 68, 110],
    ];
    kani::concrete_playback_run(concrete_vals, c09_shift_total_vec_n0);
}
