// counterexamples for harness c09::c09_shift_total_vec_n1 (property C09); replay: ./check C09 --replay <this file>
// features: c09
#![allow(unused_imports)]
use crate::c09::*;

/// Test generated for harness `c09::c09_shift_total_vec_n1` 
///
/// Check for `assertion`: ""front iteration yields exactly the announced number of items""

#[test]
fn kani_concrete_playback_c09_shift_total_vec_n1_18173657254924630585() {
    let concrete_vals: Vec<Vec<u8>> = vec![
        // -1
        vec![255, 255, 255, 255],
        // -3
        vec![253, 255, 255, 255],
        // -1
        vec![255, 255, 255, 255],
    ];
    kani::concrete_playback_run(concrete_vals, c09_shift_total_vec_n1);
}

/// Test generated for harness `c09::c09_shift_total_vec_n1` 
///
/// Check for `cover`: "n == 0"

#[test]
fn kani_concrete_playback_c09_shift_total_vec_n1_16055815483272324101() {
    let concrete_vals: Vec<Vec<u8>> = vec![
        // -1
        vec![255, 255, 255, 255],
        // 0
        vec![0, 0, 0, 0],
        // -1
        vec![255, 255, 255, 255],
    ];
    kani::concrete_playback_run(concrete_vals, c09_shift_total_vec_n1);
}

/// Test generated for harness `c09::c09_shift_total_vec_n1` 
///
/// Check for `assertion`: "attempt to subtract with overflow"

#[test]
fn kani_concrete_playback_c09_shift_total_vec_n1_6984545797910143689() {
    let concrete_vals: Vec<Vec<u8>> = vec![
        // -1
        vec![255, 255, 255, 255],
        // 3
        vec![3, 0, 0, 0],
        // -1
        vec![255, 255, 255, 255],
    ];
    kani::concrete_playback_run(concrete_vals, c09_shift_total_vec_n1);
}
