// counterexamples for harness c09::c09_steps_trustiter_adaptors_n2 (property C09); replay: ./check C09 --replay <this file>
// features: c09
#![allow(unused_imports)]
use crate::c09::*;

/// Test generated for harness `c09::c09_steps_trustiter_adaptors_n2` 
///
/// Check for `assertion`: ""vpartition: the hint drops by exactly one with every yielded item""

#[test]
fn kani_concrete_playback_c09_steps_trustiter_adaptors_n2_15109782324068612378() {
    let concrete_vals: Vec<Vec<u8>> = vec![
        // 10
        vec![10],
        // 0
        vec![0, 0, 0, 0],
        // 0
        vec![0, 0, 0, 0],
        // 0
        vec![0],
        // 0
        vec![0],
        // 0
        vec![0, 0, 0, 0],
    ];
    kani::concrete_playback_run(concrete_vals, c09_steps_trustiter_adaptors_n2);
}

/// Test generated for harness `c09::c09_steps_trustiter_adaptors_n2` 
///
/// Check for `assertion`: ""vpct_change: the hint drops by exactly one with every yielded item""

#[test]
fn kani_concrete_playback_c09_steps_trustiter_adaptors_n2_13808442949950178511() {
    let concrete_vals: Vec<Vec<u8>> = vec![
        // 9
        vec![9],
        // 0
        vec![0, 0, 0, 0],
        // 0
        vec![0, 0, 0, 0],
        // 0
        vec![0],
        // 0
        vec![0],
        // 0
        vec![0, 0, 0, 0],
    ];
    kani::concrete_playback_run(concrete_vals, c09_steps_trustiter_adaptors_n2);
}

/// Test generated for harness `c09::c09_steps_trustiter_adaptors_n2` 
///
/// Check for `assertion`: ""rolling_custom_iter: the hint drops by exactly one with every yielded item""

#[test]
fn kani_concrete_playback_c09_steps_trustiter_adaptors_n2_709393478366823917() {
    let concrete_vals: Vec<Vec<u8>> = vec![
        // 16
        vec![16],
        // 0
        vec![0, 0, 0, 0],
        // 0
        vec![0, 0, 0, 0],
        // 0
        vec![0],
        // 0
        vec![0],
        // 0
        vec![0, 0, 0, 0],
    ];
    kani::concrete_playback_run(concrete_vals, c09_steps_trustiter_adaptors_n2);
}

/// Test generated for harness `c09::c09_steps_trustiter_adaptors_n2` 
///
/// Check for `cover`: "selector free"

#[test]
fn kani_concrete_playback_c09_steps_trustiter_adaptors_n2_12826052818449495357() {
    let concrete_vals: Vec<Vec<u8>> = vec![
        // 128
        vec![128],
        // 0
        vec![0, 0, 0, 0],
        // 0
        vec![0, 0, 0, 0],
        // 0
        vec![0],
        // 0
        vec![0],
        // 0
        vec![0, 0, 0, 0],
    ];
    kani::concrete_playback_run(concrete_vals, c09_steps_trustiter_adaptors_n2);
}

/// Test generated for harness `c09::c09_steps_trustiter_adaptors_n2` 
///
/// Check for `assertion`: ""vdiff: the hint drops by exactly one with every yielded item""

#[test]
fn kani_concrete_playback_c09_steps_trustiter_adaptors_n2_17406882732040384105() {
    let concrete_vals: Vec<Vec<u8>> = vec![
        // 6
        vec![6],
        // 0
        vec![0, 0, 0, 0],
        // 0
        vec![0, 0, 0, 0],
        // 0
        vec![0],
        // 0
        vec![0],
        // 0
        vec![0, 0, 0, 0],
    ];
    kani::concrete_playback_run(concrete_vals, c09_steps_trustiter_adaptors_n2);
}

/// Test generated for harness `c09::c09_steps_trustiter_adaptors_n2` 
///
/// Check for `assertion`: ""shift: the hint drops by exactly one with every yielded item""

#[test]
fn kani_concrete_playback_c09_steps_trustiter_adaptors_n2_2715252895303535857() {
    let concrete_vals: Vec<Vec<u8>> = vec![
        // 0
        vec![0],
        // 0
        vec![0, 0, 0, 0],
        // 0
        vec![0, 0, 0, 0],
        // 0
        vec![0],
        // 0
        vec![0],
        // 0
        vec![0, 0, 0, 0],
    ];
    kani::concrete_playback_run(concrete_vals, c09_steps_trustiter_adaptors_n2);
}

/// Test generated for harness `c09::c09_steps_trustiter_adaptors_n2` 
///
/// Check for `assertion`: ""rolling_custom_iter: the hint drops by exactly one with every yielded item""

#[test]
fn kani_concrete_playback_c09_steps_trustiter_adaptors_n2_2270879938798047255() {
    let concrete_vals: Vec<Vec<u8>> = vec![
        // 18
        vec![18],
        // 0
        vec![0, 0, 0, 0],
        // 0
        vec![0, 0, 0, 0],
        // 0
        vec![0],
        // 0
        vec![0],
        // 0
        vec![0, 0, 0, 0],
    ];
    kani::concrete_playback_run(concrete_vals, c09_steps_trustiter_adaptors_n2);
}

/// Test generated for harness `c09::c09_steps_trustiter_adaptors_n2` 
///
/// Check for `assertion`: ""varg_partition: the hint drops by exactly one with every yielded item""

#[test]
fn kani_concrete_playback_c09_steps_trustiter_adaptors_n2_15366390325661990635() {
    let concrete_vals: Vec<Vec<u8>> = vec![
        // 15
        vec![15],
        // 0
        vec![0, 0, 0, 0],
        // 0
        vec![0, 0, 0, 0],
        // 0
        vec![0],
        // 0
        vec![0],
        // 0
        vec![0, 0, 0, 0],
    ];
    kani::concrete_playback_run(concrete_vals, c09_steps_trustiter_adaptors_n2);
}

/// Test generated for harness `c09::c09_steps_trustiter_adaptors_n2` 
///
/// Check for `assertion`: ""rolling_custom_iter: the hint drops by exactly one with every yielded item""

#[test]
fn kani_concrete_playback_c09_steps_trustiter_adaptors_n2_9552277715860057141() {
    let concrete_vals: Vec<Vec<u8>> = vec![
        // 17
        vec![17],
        // 0
        vec![0, 0, 0, 0],
        // 0
        vec![0, 0, 0, 0],
        // 0
        vec![0],
        // 0
        vec![0],
        // 0
        vec![0, 0, 0, 0],
    ];
    kani::concrete_playback_run(concrete_vals, c09_steps_trustiter_adaptors_n2);
}

/// Test generated for harness `c09::c09_steps_trustiter_adaptors_n2` 
///
/// Check for `assertion`: ""vshift: the hint drops by exactly one with every yielded item""

#[test]
fn kani_concrete_playback_c09_steps_trustiter_adaptors_n2_2375332366993006541() {
    let concrete_vals: Vec<Vec<u8>> = vec![
        // 2
        vec![2],
        // 0
        vec![0, 0, 0, 0],
        // 0
        vec![0, 0, 0, 0],
        // 0
        vec![0],
        // 0
        vec![0],
        // 0
        vec![0, 0, 0, 0],
    ];
    kani::concrete_playback_run(concrete_vals, c09_steps_trustiter_adaptors_n2);
}
