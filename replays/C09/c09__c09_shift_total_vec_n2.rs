// counterexamples for harness c09::c09_shift_total_vec_n2 (property C09); replay: ./check C09 --replay <this file>
// features: c09
#![allow(unused_imports)]
use crate::c09::*;

/// Test generated for harness `c09::c09_shift_total_vec_n2` 
///
/// Check for `cover`: "|n| > len"

#[test]
fn kani_concrete_playback_c09_shift_total_vec_n2_11952497056555585719() {
    let concrete_vals: Vec<Vec<u8>> = vec![
        // -1
        vec![255, 255, 255, 255],
        // -1
        vec![255, 255, 255, 255],
        // -3
        vec![253, 255, 255, 255],
        // -1
        vec![255, 255, 255, 255],
    ];
    kani::concrete_playback_run(concrete_vals, c09_shift_total_vec_n2);
}

/// Test generated for harness `c09::c09_shift_total_vec_n2` 
///
/// Check for `cover`: "n == 0"

#[test]
fn kani_concrete_playback_c09_shift_total_vec_n2_14655993630854814771() {
    let concrete_vals: Vec<Vec<u8>> = vec![
        // -1
        vec![255, 255, 255, 255],
        // -1
        vec![255, 255, 255, 255],
        // 0
        vec![0, 0, 0, 0],
        // -1
        vec![255, 255, 255, 255],
    ];
    kani::concrete_playback_run(concrete_vals, c09_shift_total_vec_n2);
}

/// Test generated for harness `c09::c09_shift_total_vec_n2` 
///
/// Check for `cover`: "interesting region of the parameter space reached and passed"

#[test]
fn kani_concrete_playback_c09_shift_total_vec_n2_6513647702700171339() {
    let concrete_vals: Vec<Vec<u8>> = vec![
        // -1
        vec![255, 255, 255, 255],
        // -1
        vec![255, 255, 255, 255],
        // -1
        vec![255, 255, 255, 255],
        // -1
        vec![255, 255, 255, 255],
    ];
    kani::concrete_playback_run(concrete_vals, c09_shift_total_vec_n2);
}

/// Test generated for harness `c09::c09_shift_total_vec_n2` 
///
/// Check for `assertion`: "attempt to subtract with overflow"

#[test]
fn kani_concrete_playback_c09_shift_total_vec_n2_10412603445874969125() {
    let concrete_vals: Vec<Vec<u8>> = vec![
        // -1
        vec![255, 255, 255, 255],
        // -1
        vec![255, 255, 255, 255],
        // 5
        vec![5, 0, 0, 0],
        // -1
        vec![255, 255, 255, 255],
    ];
    kani::concrete_playback_run(concrete_vals, c09_shift_total_vec_n2);
}
