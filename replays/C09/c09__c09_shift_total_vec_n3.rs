// counterexamples for harness c09::c09_shift_total_vec_n3 (property C09); replay: ./check C09 --replay <this file>
// features: c09
#![allow(unused_imports)]
use crate::c09::*;

/// Test generated for harness `c09::c09_shift_total_vec_n3` 
///
/// Check for `assertion`: "attempt to subtract with overflow"

#[test]
fn kani_concrete_playback_c09_shift_total_vec_n3_3883306372127861745() {
    let concrete_vals: Vec<Vec<u8>> = vec![
        // -1
        vec![255, 255, 255, 255],
        // -1
        vec![255, 255, 255, 255],
        // -1
        vec![255, 255, 255, 255],
        // 4
        vec![4, 0, 0, 0],
        // -1
        vec![255, 255, 255, 255],
    ];
    kani::concrete_playback_run(concrete_vals, c09_shift_total_vec_n3);
}

/// Test generated for harness `c09::c09_shift_total_vec_n3` 
///
/// Check for `cover`: "|n| > len"

#[test]
fn kani_concrete_playback_c09_shift_total_vec_n3_15322862232871471849() {
    let concrete_vals: Vec<Vec<u8>> = vec![
        // -1
        vec![255, 255, 255, 255],
        // -1
        vec![255, 255, 255, 255],
        // -1
        vec![255, 255, 255, 255],
        // -6
        vec![250, 255, 255, 255],
        // -1
        vec![255, 255, 255, 255],
    ];
    kani::concrete_playback_run(concrete_vals, c09_shift_total_vec_n3);
}

/// Test generated for harness `c09::c09_shift_total_vec_n3` 
///
/// Check for `cover`: "n == 0"

#[test]
fn kani_concrete_playback_c09_shift_total_vec_n3_6557497054334489539() {
    let concrete_vals: Vec<Vec<u8>> = vec![
        // -1
        vec![255, 255, 255, 255],
        // -1
        vec![255, 255, 255, 255],
        // -1
        vec![255, 255, 255, 255],
        // 0
        vec![0, 0, 0, 0],
        // -1
        vec![255, 255, 255, 255],
    ];
    kani::concrete_playback_run(concrete_vals, c09_shift_total_vec_n3);
}

/// Test generated for harness `c09::c09_shift_total_vec_n3` 
///
/// Check for `cover`: "interesting region of the parameter space reached and passed"

#[test]
fn kani_concrete_playback_c09_shift_total_vec_n3_12599932420780721725() {
    let concrete_vals: Vec<Vec<u8>> = vec![
        // -1
        vec![255, 255, 255, 255],
        // -1
        vec![255, 255, 255, 255],
        // -1
        vec![255, 255, 255, 255],
        // -1
        vec![255, 255, 255, 255],
        // -1
        vec![255, 255, 255, 255],
    ];
    kani::concrete_playback_run(concrete_vals, c09_shift_total_vec_n3);
}
