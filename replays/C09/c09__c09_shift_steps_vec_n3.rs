// counterexamples for harness c09::c09_shift_steps_vec_n3 (property C09); replay: ./check C09 --replay <this file>
// features: c09
#![allow(unused_imports)]
use crate::c09::*;

/// Test generated for harness `c09::c09_shift_steps_vec_n3` 
///
/// Check for `cover`: "|n| > len"

#[test]
fn kani_concrete_playback_c09_shift_steps_vec_n3_6349389659673359183() {
    let concrete_vals: Vec<Vec<u8>> = vec![
        // -1
        vec![255, 255, 255, 255],
        // -1
        vec![255, 255, 255, 255],
        // -1
        vec![255, 255, 255, 255],
        // 6
        vec![6, 0, 0, 0],
        // -1
        vec![255, 255, 255, 255],
    ];
    kani::concrete_playback_run(concrete_vals, c09_shift_steps_vec_n3);
}

/// Test generated for harness `c09::c09_shift_steps_vec_n3` 
///
/// Check for `cover`: "n == 0"

#[test]
fn kani_concrete_playback_c09_shift_steps_vec_n3_2780871832516776938() {
    let concrete_vals: Vec<Vec<u8>> = vec![
        // -1
        vec![255, 255, 255, 255],
        // -1
        vec![255, 255, 255, 255],
        // -1
        vec![255, 255, 255, 255],
        // 0
        vec![0, 0, 0, 0],
        // -1
        vec![255, 255, 255, 255],
    ];
    kani::concrete_playback_run(concrete_vals, c09_shift_steps_vec_n3);
}

/// Test generated for harness `c09::c09_shift_steps_vec_n3` 
///
/// Check for `assertion`: ""the hint drops by exactly one with every yielded item""

#[test]
fn kani_concrete_playback_c09_shift_steps_vec_n3_5148147323646439264() {
    let concrete_vals: Vec<Vec<u8>> = vec![
        // -1
        vec![255, 255, 255, 255],
        // -1
        vec![255, 255, 255, 255],
        // -1
        vec![255, 255, 255, 255],
        // -1
        vec![255, 255, 255, 255],
        // -1
        vec![255, 255, 255, 255],
    ];
    kani::concrete_playback_run(concrete_vals, c09_shift_steps_vec_n3);
}
