// counterexamples for harness c09::c09_shift_beyond_collect_n1 (property C09); replay: ./check C09 --replay <this file>
// features: c09
#![allow(unused_imports)]
use crate::c09::*;

/// Test generated for harness `c09::c09_shift_beyond_collect_n1` 
///
/// Check for `safety_check`: "Offset result and original pointer must point to the same allocation"

#[test]
fn kani_concrete_playback_c09_shift_beyond_collect_n1_8657800717784508351() {
    let concrete_vals: Vec<Vec<u8>> = vec![
        // -1
        vec![255, 255, 255, 255],
        // -3
        vec![253, 255, 255, 255],
        // -1
        vec![255, 255, 255, 255],
    ];
    kani::concrete_playback_run(concrete_vals, c09_shift_beyond_collect_n1);
}

/// Test generated for harness `c09::c09_shift_beyond_collect_n1` 
///
/// Check for `assertion`: "attempt to subtract with overflow"

#[test]
fn kani_concrete_playback_c09_shift_beyond_collect_n1_17398279283199356672() {
    let concrete_vals: Vec<Vec<u8>> = vec![
        // -1
        vec![255, 255, 255, 255],
        // 4
        vec![4, 0, 0, 0],
        // -1
        vec![255, 255, 255, 255],
    ];
    kani::concrete_playback_run(concrete_vals, c09_shift_beyond_collect_n1);
}

/// Test generated for harness `c09::c09_shift_beyond_collect_n1` 
///
/// Check for `cover`: "interesting region of the parameter space reached and passed"

#[test]
fn kani_concrete_playback_c09_shift_beyond_collect_n1_3389782630318881733() {
    let concrete_vals: Vec<Vec<u8>> = vec![
        // -1
        vec![255, 255, 255, 255],
        // -1
        vec![255, 255, 255, 255],
        // -1
        vec![255, 255, 255, 255],
    ];
    kani::concrete_playback_run(concrete_vals, c09_shift_beyond_collect_n1);
}
