// counterexamples for harness c09::c09_shift_beyond_total_n0 (property C09); replay: ./check C09 --replay <this file>
// features: c09
#![allow(unused_imports)]
use crate::c09::*;

/// Test generated for harness `c09::c09_shift_beyond_total_n0` 
///
/// Check for `cover`: "interesting region of the parameter space reached and passed"

#[test]
fn kani_concrete_playback_c09_shift_beyond_total_n0_16889915255731877598() {
    let concrete_vals: Vec<Vec<u8>> = vec![
        // 0
        vec![0, 0, 0, 0],
        // -1
        vec![255, 255, 255, 255],
    ];
    kani::concrete_playback_run(concrete_vals, c09_shift_beyond_total_n0);
}

/// Test generated for harness `c09::c09_shift_beyond_total_n0` 
///
/// Check for `assertion`: ""front iteration yields exactly the announced number of items""

#[test]
fn kani_concrete_playback_c09_shift_beyond_total_n0_18347029759308539044() {
    let concrete_vals: Vec<Vec<u8>> = vec![
        // -1
        vec![255, 255, 255, 255],
        // -1
        vec![255, 255, 255, 255],
    ];
    kani::concrete_playback_run(concrete_vals, c09_shift_beyond_total_n0);
}

/// Test generated for harness `c09::c09_shift_beyond_total_n0` 
///
/// Check for `assertion`: "attempt to subtract with overflow"

#[test]
fn kani_concrete_playback_c09_shift_beyond_total_n0_18029852399711001525() {
    let concrete_vals: Vec<Vec<u8>> = vec![
        // 3
        vec![3, 0, 0, 0],
        // -1
        vec![255, 255, 255, 255],
    ];
    kani::concrete_playback_run(concrete_vals, c09_shift_beyond_total_n0);
}
