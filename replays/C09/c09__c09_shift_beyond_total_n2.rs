// counterexamples for harness c09::c09_shift_beyond_total_n2 (property C09); replay: ./check C09 --replay <this file>
// features: c09
#![allow(unused_imports)]
use crate::c09::*;

/// Test generated for harness `c09::c09_shift_beyond_total_n2` 
///
/// Check for `assertion`: "attempt to subtract with overflow"

#[test]
fn kani_concrete_playback_c09_shift_beyond_total_n2_1385748523368591263() {
    let concrete_vals: Vec<Vec<u8>> = vec![
        // -1
        vec![255, 255, 255, 255],
        // -1
        vec![255, 255, 255, 255],
        // 4
        vec![4, 0, 0, 0],
        // -1
        vec![255, 255, 255, 255],
    ];
    kani::concrete_playback_run(concrete_vals, c09_shift_beyond_total_n2);
}

/// Test generated for harness `c09::c09_shift_beyond_total_n2` 
///
/// Check for `cover`: "interesting region of the parameter space reached and passed"

#[test]
fn kani_concrete_playback_c09_shift_beyond_total_n2_10685526028007889692() {
    let concrete_vals: Vec<Vec<u8>> = vec![
        // -1
        vec![255, 255, 255, 255],
        // -1
        vec![255, 255, 255, 255],
        // -1
        vec![255, 255, 255, 255],
        // -1
        vec![255, 255, 255, 255],
    ];
    kani::concrete_playback_run(concrete_vals, c09_shift_beyond_total_n2);
}

/// Test generated for harness `c09::c09_shift_beyond_total_n2` 
///
/// Check for `assertion`: ""front iteration yields exactly the announced number of items""

#[test]
fn kani_concrete_playback_c09_shift_beyond_total_n2_4388919106558824171() {
    let concrete_vals: Vec<Vec<u8>> = vec![
        // -1
        vec![255, 255, 255, 255],
        // -1
        vec![255, 255, 255, 255],
        // -3
        vec![253, 255, 255, 255],
        // -1
        vec![255, 255, 255, 255],
    ];
    kani::concrete_playback_run(concrete_vals, c09_shift_beyond_total_n2);
}
