// counterexamples for harness c09::c09_shift_total_abs (property C09); replay: ./check C09 --replay <this file>
// features: c09
#![allow(unused_imports)]
use crate::c09::*;

/// Test generated for harness `c09::c09_shift_total_abs` 
///
/// Check for `cover`: "interesting region of the parameter space reached and passed"

#[test]
fn kani_concrete_playback_c09_shift_total_abs_7589685740810854663() {
    let concrete_vals: Vec<Vec<u8>> = vec![
        // 3ul
        vec![3, 0, 0, 0, 0, 0, 0, 0],
        // -2
        vec![254, 255, 255, 255],
        // -16777217
        vec![255, 255, 255, 254],
        // -1
        vec![255, 255, 255, 255],
        // -1
        vec![255, 255, 255, 255],
        // -1
        vec![255, 255, 255, 255],
        // -1
        vec![255, 255, 255, 255],
        // -1
        vec![255, 255, 255, 255],
        // -1
        vec![255, 255, 255, 255],
    ];
    kani::concrete_playback_run(concrete_vals, c09_shift_total_abs);
}

/// Test generated for harness `c09::c09_shift_total_abs` 
///
/// Check for `assertion`: ""front iteration yields exactly the announced number of items""

#[test]
fn kani_concrete_playback_c09_shift_total_abs_2768541000550859312() {
    let concrete_vals: Vec<Vec<u8>> = vec![
        // 0ul
        vec![0, 0, 0, 0, 0, 0, 0, 0],
        // -3
        vec![253, 255, 255, 255],
        // -1
        vec![255, 255, 255, 255],
    ];
    kani::concrete_playback_run(concrete_vals, c09_shift_total_abs);
}

/// Test generated for harness `c09::c09_shift_total_abs` 
///
/// Check for `assertion`: "attempt to subtract with overflow"

#[test]
fn kani_concrete_playback_c09_shift_total_abs_12091071588145512937() {
    let concrete_vals: Vec<Vec<u8>> = vec![
        // 0ul
        vec![0, 0, 0, 0, 0, 0, 0, 0],
        // 4
        vec![4, 0, 0, 0],
        // 4
        vec![4, 0, 0, 0],
    ];
    kani::concrete_playback_run(concrete_vals, c09_shift_total_abs);
}
