// counterexamples for harness c14::c14_vcut_open_extreme_left_e3 (property C14); replay: ./check C14 --replay <this file>
// features: c14,thorough
#![allow(unused_imports)]
use crate::c14::*;

/// Test generated for harness `c14::c14_vcut_open_extreme_left_e3` 
///
/// Check for `cover`: "label count does not match the edges"
///
/// # Warning
///
/// Concrete playback tests combined with stubs or contracts is highly
/// experimental, and subject to change.
///
/// The original harness has stubs which are not applied to this test.
/// This may cause a mismatch of non-deterministic values if the stub
/// creates any non-deterministic value.
/// The execution path may also differ, which can be used to refine the stub
/// logic.

#[test]
fn kani_concrete_playback_c14_vcut_open_extreme_left_e3_902545040447814667() {
    let concrete_vals: Vec<Vec<u8>> = vec![
        // 2147483644
        vec![252, 255, 255, 127],
        // 2147483645
        vec![253, 255, 255, 127],
        // 2147483647
        vec![255, 255, 255, 127],
        // 1
        vec![1],
        // 2147483647
        vec![255, 255, 255, 127],
    ];
    kani::concrete_playback_run(concrete_vals, c14_vcut_open_extreme_left_e3);
}
