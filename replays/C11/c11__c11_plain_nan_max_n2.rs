// counterexamples for harness c11::c11_plain_nan_max_n2 (property C11); replay: ./check C11 --replay <this file>
// features: c11
#![allow(unused_imports)]
use crate::c11::*;

/// Test generated for harness `c11::c11_plain_nan_max_n2` 
///
/// Check for `assertion`: ""float max ignores NaN wherever it stands (greatest non-NaN element)""

#[test]
fn kani_concrete_playback_c11_plain_nan_max_n2_16094515052029481719() {
    let concrete_vals: Vec<Vec<u8>> = vec![
        // 2
        vec![2, 0, 0, 0],
        // 1
        vec![1],
        // -2
        vec![254, 255, 255, 255],
        // 0
        vec![0],
    ];
    kani::concrete_playback_run(concrete_vals, c11_plain_nan_max_n2);
}

/// Test generated for harness `c11::c11_plain_nan_max_n2` 
///
/// Check for `cover`: "NaN next to a number"

#[test]
fn kani_concrete_playback_c11_plain_nan_max_n2_10954943466134706913() {
    let concrete_vals: Vec<Vec<u8>> = vec![
        // -1
        vec![255, 255, 255, 255],
        // 0
        vec![0],
        // 2
        vec![2, 0, 0, 0],
        // 1
        vec![1],
    ];
    kani::concrete_playback_run(concrete_vals, c11_plain_nan_max_n2);
}
