// counterexamples for harness c16::c16_natop_time_sub_lhs_nat (property C16); replay: ./check C16 --replay <this file>
// features: c16
#![allow(unused_imports)]
use crate::c16::*;

/// Test generated for harness `c16::c16_natop_time_sub_lhs_nat` 
///
/// Check for `cover`: "positive duration"
///
/// # Warning
///
/// Concrete playback tests combined with stubs or contracts is highly
/// experimental, and subject to change.
///
/// The original harness has stubs which are not applied to this test.
/// This may cause a mismatch of non-deterministic values if the stub
/// creates any non-deterministic value.
/// The execution path may also differ, which can be used to refine the stub
/// logic.

#[test]
fn kani_concrete_playback_c16_natop_time_sub_lhs_nat_3235893304443028624() {
    let concrete_vals: Vec<Vec<u8>> = vec![
        // 35
        vec![35, 0, 0, 0, 0, 0, 0, 0],
        // 433480191
        vec![255, 97, 214, 25],
    ];
    kani::concrete_playback_run(concrete_vals, c16_natop_time_sub_lhs_nat);
}

/// Test generated for harness `c16::c16_natop_time_sub_lhs_nat` 
///
/// Check for `cover`: "negative duration"
///
/// # Warning
///
/// Concrete playback tests combined with stubs or contracts is highly
/// experimental, and subject to change.
///
/// The original harness has stubs which are not applied to this test.
/// This may cause a mismatch of non-deterministic values if the stub
/// creates any non-deterministic value.
/// The execution path may also differ, which can be used to refine the stub
/// logic.

#[test]
fn kani_concrete_playback_c16_natop_time_sub_lhs_nat_6625021967516137875() {
    let concrete_vals: Vec<Vec<u8>> = vec![
        // -1099511627776
        vec![0, 0, 0, 0, 0, 255, 255, 255],
        // 0
        vec![0, 0, 0, 0],
    ];
    kani::concrete_playback_run(concrete_vals, c16_natop_time_sub_lhs_nat);
}

/// Test generated for harness `c16::c16_natop_time_sub_lhs_nat` 
///
/// Check for `assertion`: ""NaT time - duration is NaT""
///
/// # Warning
///
/// Concrete playback tests combined with stubs or contracts is highly
/// experimental, and subject to change.
///
/// The original harness has stubs which are not applied to this test.
/// This may cause a mismatch of non-deterministic values if the stub
/// creates any non-deterministic value.
/// The execution path may also differ, which can be used to refine the stub
/// logic.

#[test]
fn kani_concrete_playback_c16_natop_time_sub_lhs_nat_15296739586272094128() {
    let concrete_vals: Vec<Vec<u8>> = vec![
        // -16777216
        vec![0, 0, 0, 255, 255, 255, 255, 255],
        // 0
        vec![0, 0, 0, 0],
    ];
    kani::concrete_playback_run(concrete_vals, c16_natop_time_sub_lhs_nat);
}
