// counterexamples for harness c16::c16_nat_s_us (property C16); replay: ./check C16 --replay <this file>
// features: c16
#![allow(unused_imports)]
use crate::c16::*;

/// Test generated for harness `c16::c16_nat_s_us` 
///
/// Check for `assertion`: "attempt to multiply with overflow"

#[test]
fn kani_concrete_playback_c16_nat_s_us_8406810960625713364() {
    let concrete_vals: Vec<Vec<u8>> = vec![
    ];
    kani::concrete_playback_run(concrete_vals, c16_nat_s_us);
}
