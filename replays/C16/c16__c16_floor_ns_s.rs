// counterexamples for harness c16::c16_floor_ns_s (property C16); replay: ./check C16 --replay <this file>
// features: c16
#![allow(unused_imports)]
use crate::c16::*;

/// Test generated for harness `c16::c16_floor_ns_s` 
///
/// Check for `cover`: "negative non-divisible"

#[test]
fn kani_concrete_playback_c16_floor_ns_s_16803946107130530800() {
    let concrete_vals: Vec<Vec<u8>> = vec![
        // -1
        vec![255, 255, 255, 255, 255, 255, 255, 255],
    ];
    kani::concrete_playback_run(concrete_vals, c16_floor_ns_s);
}

/// Test generated for harness `c16::c16_floor_ns_s` 
///
/// Check for `cover`: "positive non-divisible"

#[test]
fn kani_concrete_playback_c16_floor_ns_s_7371023556112869506() {
    let concrete_vals: Vec<Vec<u8>> = vec![
        // 256
        vec![0, 1, 0, 0, 0, 0, 0, 0],
    ];
    kani::concrete_playback_run(concrete_vals, c16_floor_ns_s);
}

/// Test generated for harness `c16::c16_floor_ns_s` 
///
/// Check for `assertion`: ""coarser unit truncates toward the past (floor)""

#[test]
fn kani_concrete_playback_c16_floor_ns_s_16803946107130530800() {
    let concrete_vals: Vec<Vec<u8>> = vec![
        // -1
        vec![255, 255, 255, 255, 255, 255, 255, 255],
    ];
    kani::concrete_playback_run(concrete_vals, c16_floor_ns_s);
}
