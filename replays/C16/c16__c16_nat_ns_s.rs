// counterexamples for harness c16::c16_nat_ns_s (property C16); replay: ./check C16 --replay <this file>
// features: c16
#![allow(unused_imports)]
use crate::c16::*;

/// Test generated for harness `c16::c16_nat_ns_s` 
///
/// Check for `assertion`: ""NaT must convert to NaT""

#[test]
fn kani_concrete_playback_c16_nat_ns_s_12525903176574431968() {
    let concrete_vals: Vec<Vec<u8>> = vec![
    ];
    kani::concrete_playback_run(concrete_vals, c16_nat_ns_s);
}
