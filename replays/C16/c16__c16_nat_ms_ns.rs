// counterexamples for harness c16::c16_nat_ms_ns (property C16); replay: ./check C16 --replay <this file>
// features: c16
#![allow(unused_imports)]
use crate::c16::*;

/// Test generated for harness `c16::c16_nat_ms_ns` 
///
/// Check for `assertion`: "attempt to multiply with overflow"

#[test]
fn kani_concrete_playback_c16_nat_ms_ns_9020025023831757490() {
    let concrete_vals: Vec<Vec<u8>> = vec![
    ];
    kani::concrete_playback_run(concrete_vals, c16_nat_ms_ns);
}
