// counterexamples for harness c16::c16_floor_us_s (property C16); replay: ./check C16 --replay <this file>
// features: c16
#![allow(unused_imports)]
use crate::c16::*;

/// Test generated for harness `c16::c16_floor_us_s` 
///
/// Check for `cover`: "negative non-divisible"

#[test]
fn kani_concrete_playback_c16_floor_us_s_8433136151298431200() {
    let concrete_vals: Vec<Vec<u8>> = vec![
        // -1
        vec![255, 255, 255, 255, 255, 255, 255, 255],
    ];
    kani::concrete_playback_run(concrete_vals, c16_floor_us_s);
}

/// Test generated for harness `c16::c16_floor_us_s` 
///
/// Check for `cover`: "positive non-divisible"

#[test]
fn kani_concrete_playback_c16_floor_us_s_1399716593996656878() {
    let concrete_vals: Vec<Vec<u8>> = vec![
        // 32
        vec![32, 0, 0, 0, 0, 0, 0, 0],
    ];
    kani::concrete_playback_run(concrete_vals, c16_floor_us_s);
}

/// Test generated for harness `c16::c16_floor_us_s` 
///
/// Check for `assertion`: ""coarser unit truncates toward the past (floor)""

#[test]
fn kani_concrete_playback_c16_floor_us_s_8433136151298431200() {
    let concrete_vals: Vec<Vec<u8>> = vec![
        // -1
        vec![255, 255, 255, 255, 255, 255, 255, 255],
    ];
    kani::concrete_playback_run(concrete_vals, c16_floor_us_s);
}
