// counterexamples for harness c16::c16_natop_time_add_lhs_nat (property C16); replay: ./check C16 --replay <this file>
// features: c16
#![allow(unused_imports)]
use crate::c16::*;

/// Test generated for harness `c16::c16_natop_time_add_lhs_nat` 
///
/// Check for `assertion`: "attempt to add with overflow"
///
/// # Warning
///
/// Concrete playback tests combined with stubs or contracts is highly
/// experimental, and subject to change.
///
/// The original harness has stubs which are not applied to this test.
/// This may cause a mismatch of non-deterministic values if the stub
/// creates any non-deterministic value.
/// The execution path may also differ, which can be used to refine the stub
/// logic.

#[test]
fn kani_concrete_playback_c16_natop_time_add_lhs_nat_17254666983264663991() {
    let concrete_vals: Vec<Vec<u8>> = vec![
        // -8589934592
        vec![0, 0, 0, 0, 254, 255, 255, 255],
        // 0
        vec![0, 0, 0, 0],
    ];
    kani::concrete_playback_run(concrete_vals, c16_natop_time_add_lhs_nat);
}

/// Test generated for harness `c16::c16_natop_time_add_lhs_nat` 
///
/// Check for `cover`: "positive duration"
///
/// # Warning
///
/// Concrete playback tests combined with stubs or contracts is highly
/// experimental, and subject to change.
///
/// The original harness has stubs which are not applied to this test.
/// This may cause a mismatch of non-deterministic values if the stub
/// creates any non-deterministic value.
/// The execution path may also differ, which can be used to refine the stub
/// logic.

#[test]
fn kani_concrete_playback_c16_natop_time_add_lhs_nat_18223249610412999354() {
    let concrete_vals: Vec<Vec<u8>> = vec![
        // 549755813888
        vec![0, 0, 0, 0, 128, 0, 0, 0],
        // 1
        vec![1, 0, 0, 0],
    ];
    kani::concrete_playback_run(concrete_vals, c16_natop_time_add_lhs_nat);
}

/// Test generated for harness `c16::c16_natop_time_add_lhs_nat` 
///
/// Check for `assertion`: ""NaT time + duration is NaT""
///
/// # Warning
///
/// Concrete playback tests combined with stubs or contracts is highly
/// experimental, and subject to change.
///
/// The original harness has stubs which are not applied to this test.
/// This may cause a mismatch of non-deterministic values if the stub
/// creates any non-deterministic value.
/// The execution path may also differ, which can be used to refine the stub
/// logic.

#[test]
fn kani_concrete_playback_c16_natop_time_add_lhs_nat_1894801755599051008() {
    let concrete_vals: Vec<Vec<u8>> = vec![
        // 1
        vec![1, 0, 0, 0, 0, 0, 0, 0],
        // 0
        vec![0, 0, 0, 0],
    ];
    kani::concrete_playback_run(concrete_vals, c16_natop_time_add_lhs_nat);
}
