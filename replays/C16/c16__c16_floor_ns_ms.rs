// counterexamples for harness c16::c16_floor_ns_ms (property C16); replay: ./check C16 --replay <this file>
// features: c16
#![allow(unused_imports)]
use crate::c16::*;

/// Test generated for harness `c16::c16_floor_ns_ms` 
///
/// Check for `cover`: "negative non-divisible"

#[test]
fn kani_concrete_playback_c16_floor_ns_ms_15516440159386620452() {
    let concrete_vals: Vec<Vec<u8>> = vec![
        // -1
        vec![255, 255, 255, 255, 255, 255, 255, 255],
    ];
    kani::concrete_playback_run(concrete_vals, c16_floor_ns_ms);
}

/// Test generated for harness `c16::c16_floor_ns_ms` 
///
/// Check for `cover`: "positive non-divisible"

#[test]
fn kani_concrete_playback_c16_floor_ns_ms_15531015622279320238() {
    let concrete_vals: Vec<Vec<u8>> = vec![
        // 32
        vec![32, 0, 0, 0, 0, 0, 0, 0],
    ];
    kani::concrete_playback_run(concrete_vals, c16_floor_ns_ms);
}

/// Test generated for harness `c16::c16_floor_ns_ms` 
///
/// Check for `assertion`: ""coarser unit truncates toward the past (floor)""

#[test]
fn kani_concrete_playback_c16_floor_ns_ms_15516440159386620452() {
    let concrete_vals: Vec<Vec<u8>> = vec![
        // -1
        vec![255, 255, 255, 255, 255, 255, 255, 255],
    ];
    kani::concrete_playback_run(concrete_vals, c16_floor_ns_ms);
}
