// counterexamples for harness c16::c16_floor_us_ms (property C16); replay: ./check C16 --replay <this file>
// features: c16
#![allow(unused_imports)]
use crate::c16::*;

/// Test generated for harness `c16::c16_floor_us_ms` 
///
/// Check for `cover`: "negative non-divisible"

#[test]
fn kani_concrete_playback_c16_floor_us_ms_8872427238010416931() {
    let concrete_vals: Vec<Vec<u8>> = vec![
        // -1
        vec![255, 255, 255, 255, 255, 255, 255, 255],
    ];
    kani::concrete_playback_run(concrete_vals, c16_floor_us_ms);
}

/// Test generated for harness `c16::c16_floor_us_ms` 
///
/// Check for `cover`: "positive non-divisible"

#[test]
fn kani_concrete_playback_c16_floor_us_ms_7384328827414420980() {
    let concrete_vals: Vec<Vec<u8>> = vec![
        // 5566745834160121359
        vec![15, 230, 255, 159, 215, 13, 65, 77],
    ];
    kani::concrete_playback_run(concrete_vals, c16_floor_us_ms);
}

/// Test generated for harness `c16::c16_floor_us_ms` 
///
/// Check for `assertion`: ""coarser unit truncates toward the past (floor)""

#[test]
fn kani_concrete_playback_c16_floor_us_ms_8872427238010416931() {
    let concrete_vals: Vec<Vec<u8>> = vec![
        // -1
        vec![255, 255, 255, 255, 255, 255, 255, 255],
    ];
    kani::concrete_playback_run(concrete_vals, c16_floor_us_ms);
}
