// counterexamples for harness c17::c17_time_nat_shift_stays_nat (property C17); replay: ./check C17 --replay <this file>
// features: c17,thorough
#![allow(unused_imports)]
use crate::c17::*;

/// Test generated for harness `c17::c17_time_nat_shift_stays_nat` 
///
/// Check for `cover`: "positive shift"
///
/// # Warning
///
/// Concrete playback tests combined with stubs or contracts is highly
/// experimental, and subject to change.
///
/// The original harness has stubs which are not applied to this test.
/// This may cause a mismatch of non-deterministic values if the stub
/// creates any non-deterministic value.
/// The execution path may also differ, which can be used to refine the stub
/// logic.

#[test]
fn kani_concrete_playback_c17_time_nat_shift_stays_nat_9425129852802679197() {
    let concrete_vals: Vec<Vec<u8>> = vec![
        // 0
        vec![0, 0, 0, 0],
        // 536870912
        vec![0, 0, 0, 32],
    ];
    kani::concrete_playback_run(concrete_vals, c17_time_nat_shift_stays_nat);
}
