// counterexamples for harness c15::c15_isnone_dt_s (property C15); replay: ./check C15 --replay <this file>
// features: c15
#![allow(unused_imports)]
use crate::c15::*;

/// Test generated for harness `c15::c15_isnone_dt_s` 
///
/// Check for `assertion`: ""map of a null is the null of the target for every closure (agrees with to_opt().map)""

#[test]
fn kani_concrete_playback_c15_isnone_dt_s_12643177939987026063() {
    let concrete_vals: Vec<Vec<u8>> = vec![
        // -9223372036854775808
        vec![0, 0, 0, 0, 0, 0, 0, 128],
    ];
    kani::concrete_playback_run(concrete_vals, c15_isnone_dt_s);
}

/// Test generated for harness `c15::c15_isnone_dt_s` 
///
/// Check for `cover`: "non-null input"

#[test]
fn kani_concrete_playback_c15_isnone_dt_s_12982767870663300438() {
    let concrete_vals: Vec<Vec<u8>> = vec![
        // 0
        vec![0, 0, 0, 0, 0, 0, 0, 0],
    ];
    kani::concrete_playback_run(concrete_vals, c15_isnone_dt_s);
}
