// counterexamples for harness c15::c15_cast_time (property C15); replay: ./check C15 --replay <this file>
// features: c15
#![allow(unused_imports)]
use crate::c15::*;

/// Test generated for harness `c15::c15_cast_time` 
///
/// Check for `assertion`: ""Time -> f32: NaT gives NaN""
///
/// # Warning
///
/// Concrete playback tests combined with stubs or contracts is highly
/// experimental, and subject to change.
///
/// The original harness has stubs which are not applied to this test.
/// This may cause a mismatch of non-deterministic values if the stub
/// creates any non-deterministic value.
/// The execution path may also differ, which can be used to refine the stub
/// logic.

#[test]
fn kani_concrete_playback_c15_cast_time_13818231176525866973() {
    let concrete_vals: Vec<Vec<u8>> = vec![
        // -9223372036854775808
        vec![0, 0, 0, 0, 0, 0, 0, 128],
        // 3
        vec![3],
    ];
    kani::concrete_playback_run(concrete_vals, c15_cast_time);
}

/// Test generated for harness `c15::c15_cast_time` 
///
/// Check for `assertion`: ""Time -> f64: NaT gives NaN""
///
/// # Warning
///
/// Concrete playback tests combined with stubs or contracts is highly
/// experimental, and subject to change.
///
/// The original harness has stubs which are not applied to this test.
/// This may cause a mismatch of non-deterministic values if the stub
/// creates any non-deterministic value.
/// The execution path may also differ, which can be used to refine the stub
/// logic.

#[test]
fn kani_concrete_playback_c15_cast_time_102527778843958950() {
    let concrete_vals: Vec<Vec<u8>> = vec![
        // -9223372036854775808
        vec![0, 0, 0, 0, 0, 0, 0, 128],
        // 4
        vec![4],
    ];
    kani::concrete_playback_run(concrete_vals, c15_cast_time);
}

/// Test generated for harness `c15::c15_cast_time` 
///
/// Check for `cover`: "NaT source"
///
/// # Warning
///
/// Concrete playback tests combined with stubs or contracts is highly
/// experimental, and subject to change.
///
/// The original harness has stubs which are not applied to this test.
/// This may cause a mismatch of non-deterministic values if the stub
/// creates any non-deterministic value.
/// The execution path may also differ, which can be used to refine the stub
/// logic.

#[test]
fn kani_concrete_playback_c15_cast_time_1154070378224045263() {
    let concrete_vals: Vec<Vec<u8>> = vec![
        // -9223372036854775808
        vec![0, 0, 0, 0, 0, 0, 0, 128],
        // 1
        vec![1],
    ];
    kani::concrete_playback_run(concrete_vals, c15_cast_time);
}

/// Test generated for harness `c15::c15_cast_time` 
///
/// Check for `cover`: "negative value to f32"
///
/// # Warning
///
/// Concrete playback tests combined with stubs or contracts is highly
/// experimental, and subject to change.
///
/// The original harness has stubs which are not applied to this test.
/// This may cause a mismatch of non-deterministic values if the stub
/// creates any non-deterministic value.
/// The execution path may also differ, which can be used to refine the stub
/// logic.

#[test]
fn kani_concrete_playback_c15_cast_time_11863274809215452626() {
    let concrete_vals: Vec<Vec<u8>> = vec![
        // -9223372036854775796
        vec![12, 0, 0, 0, 0, 0, 0, 128],
        // 3
        vec![3],
    ];
    kani::concrete_playback_run(concrete_vals, c15_cast_time);
}

/// Test generated for harness `c15::c15_cast_time` 
///
/// Check for `cover`: "value 1 to bool"
///
/// # Warning
///
/// Concrete playback tests combined with stubs or contracts is highly
/// experimental, and subject to change.
///
/// The original harness has stubs which are not applied to this test.
/// This may cause a mismatch of non-deterministic values if the stub
/// creates any non-deterministic value.
/// The execution path may also differ, which can be used to refine the stub
/// logic.

#[test]
fn kani_concrete_playback_c15_cast_time_784884256914956475() {
    let concrete_vals: Vec<Vec<u8>> = vec![
        // 1
        vec![1, 0, 0, 0, 0, 0, 0, 0],
        // 8
        vec![8],
    ];
    kani::concrete_playback_run(concrete_vals, c15_cast_time);
}
