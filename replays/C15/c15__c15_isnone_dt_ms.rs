// counterexamples for harness c15::c15_isnone_dt_ms (property C15); replay: ./check C15 --replay <this file>
// features: c15
#![allow(unused_imports)]
use crate::c15::*;

/// Test generated for harness `c15::c15_isnone_dt_ms` 
///
/// Check for `cover`: "null input"

#[test]
fn kani_concrete_playback_c15_isnone_dt_ms_4150135596558193096() {
    let concrete_vals: Vec<Vec<u8>> = vec![
        // -9223372036854775808
        vec![0, 0, 0, 0, 0, 0, 0, 128],
    ];
    kani::concrete_playback_run(concrete_vals, c15_isnone_dt_ms);
}

/// Test generated for harness `c15::c15_isnone_dt_ms` 
///
/// Check for `cover`: "non-null input"

#[test]
fn kani_concrete_playback_c15_isnone_dt_ms_3884689497880088813() {
    let concrete_vals: Vec<Vec<u8>> = vec![
        // 0
        vec![0, 0, 0, 0, 0, 0, 0, 0],
    ];
    kani::concrete_playback_run(concrete_vals, c15_isnone_dt_ms);
}
