// counterexamples for harness c15::c15_cast_f64_time (property C15); replay: ./check C15 --replay <this file>
// features: c15
#![allow(unused_imports)]
use crate::c15::*;

/// Test generated for harness `c15::c15_cast_f64_time` 
///
/// Check for `assertion`: ""f64 -> DateTime<ns>: null (NaN) gives NaT""

#[test]
fn kani_concrete_playback_c15_cast_f64_time_9520572634014638465() {
    let concrete_vals: Vec<Vec<u8>> = vec![
        // +NaN
        vec![0, 0, 0, 0, 0, 0, 248, 127],
        // 0
        vec![0],
        // 0
        vec![0],
        // 0
        vec![0],
    ];
    kani::concrete_playback_run(concrete_vals, c15_cast_f64_time);
}

/// Test generated for harness `c15::c15_cast_f64_time` 
///
/// Check for `assertion`: ""f64 -> DateTime<us>: null (NaN) gives NaT""

#[test]
fn kani_concrete_playback_c15_cast_f64_time_9552673283332583944() {
    let concrete_vals: Vec<Vec<u8>> = vec![
        // +NaN
        vec![17, 0, 0, 0, 0, 0, 240, 127],
        // 1
        vec![1],
        // 6.237450e+18
        vec![224, 15, 31, 254, 247, 163, 213, 67],
        // 1
        vec![1],
        // 0
        vec![0],
    ];
    kani::concrete_playback_run(concrete_vals, c15_cast_f64_time);
}

/// Test generated for harness `c15::c15_cast_f64_time` 
///
/// Check for `assertion`: ""f64 -> DateTime<ms>: null (NaN) gives NaT""

#[test]
fn kani_concrete_playback_c15_cast_f64_time_7745498771326398923() {
    let concrete_vals: Vec<Vec<u8>> = vec![
        // +NaN
        vec![17, 0, 0, 0, 0, 0, 240, 127],
        // 1
        vec![1],
        // 6.237450e+18
        vec![224, 15, 31, 254, 247, 163, 213, 67],
        // 2
        vec![2],
        // 0
        vec![0],
    ];
    kani::concrete_playback_run(concrete_vals, c15_cast_f64_time);
}

/// Test generated for harness `c15::c15_cast_f64_time` 
///
/// Check for `assertion`: ""f64 -> DateTime<s>: null (NaN) gives NaT""

#[test]
fn kani_concrete_playback_c15_cast_f64_time_1433047849797915440() {
    let concrete_vals: Vec<Vec<u8>> = vec![
        // +NaN
        vec![17, 0, 0, 0, 0, 0, 240, 127],
        // 1
        vec![1],
        // 6.237450e+18
        vec![224, 15, 31, 254, 247, 163, 213, 67],
        // 3
        vec![3],
        // 0
        vec![0],
    ];
    kani::concrete_playback_run(concrete_vals, c15_cast_f64_time);
}

/// Test generated for harness `c15::c15_cast_f64_time` 
///
/// Check for `assertion`: ""f64 -> Time: null (NaN) gives NaT""

#[test]
fn kani_concrete_playback_c15_cast_f64_time_10795750779500436583() {
    let concrete_vals: Vec<Vec<u8>> = vec![
        // +NaN
        vec![17, 0, 0, 0, 0, 0, 240, 127],
        // 1
        vec![1],
        // 6.237450e+18
        vec![224, 15, 31, 254, 247, 163, 213, 67],
        // 4
        vec![4],
        // 0
        vec![0],
    ];
    kani::concrete_playback_run(concrete_vals, c15_cast_f64_time);
}

/// Test generated for harness `c15::c15_cast_f64_time` 
///
/// Check for `assertion`: ""f64 -> TimeDelta: null (NaN) gives NaT""

#[test]
fn kani_concrete_playback_c15_cast_f64_time_4258934391901472004() {
    let concrete_vals: Vec<Vec<u8>> = vec![
        // -NaN
        vec![139, 255, 255, 255, 255, 255, 255, 255],
        // 0
        vec![0],
        // 5
        vec![5],
        // 0
        vec![0],
    ];
    kani::concrete_playback_run(concrete_vals, c15_cast_f64_time);
}

/// Test generated for harness `c15::c15_cast_f64_time` 
///
/// Check for `cover`: "non-null source, TimeDelta"

#[test]
fn kani_concrete_playback_c15_cast_f64_time_1626309833460763117() {
    let concrete_vals: Vec<Vec<u8>> = vec![
        // 0
        vec![0, 0, 0, 0, 0, 0, 0, 0],
        // 0
        vec![0],
        // 5
        vec![5],
        // 0
        vec![0],
    ];
    kani::concrete_playback_run(concrete_vals, c15_cast_f64_time);
}

/// Test generated for harness `c15::c15_cast_f64_time` 
///
/// Check for `cover`: "None source, TimeDelta"

#[test]
fn kani_concrete_playback_c15_cast_f64_time_17394513973634589569() {
    let concrete_vals: Vec<Vec<u8>> = vec![
        // -1.892883e-270
        vec![255, 255, 255, 255, 255, 255, 239, 135],
        // 0
        vec![0],
        // 5
        vec![5],
        // 1
        vec![1],
    ];
    kani::concrete_playback_run(concrete_vals, c15_cast_f64_time);
}

/// Test generated for harness `c15::c15_cast_f64_time` 
///
/// Check for `cover`: "Some source, Time"

#[test]
fn kani_concrete_playback_c15_cast_f64_time_2748521841136450279() {
    let concrete_vals: Vec<Vec<u8>> = vec![
        // -1.008806e+18
        vec![255, 255, 255, 255, 255, 255, 171, 195],
        // 1
        vec![1],
        // -4.928405e+18
        vec![0, 0, 0, 128, 77, 25, 209, 195],
        // 4
        vec![4],
        // 1
        vec![1],
    ];
    kani::concrete_playback_run(concrete_vals, c15_cast_f64_time);
}
