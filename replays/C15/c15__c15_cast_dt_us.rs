// counterexamples for harness c15::c15_cast_dt_us (property C15); replay: ./check C15 --replay <this file>
// features: c15
#![allow(unused_imports)]
use crate::c15::*;

/// Test generated for harness `c15::c15_cast_dt_us` 
///
/// Check for `assertion`: ""DateTime -> f32: NaT gives NaN""
///
/// # Warning
///
/// Concrete playback tests combined with stubs or contracts is highly
/// experimental, and subject to change.
///
/// The original harness has stubs which are not applied to this test.
/// This may cause a mismatch of non-deterministic values if the stub
/// creates any non-deterministic value.
/// The execution path may also differ, which can be used to refine the stub
/// logic.

#[test]
fn kani_concrete_playback_c15_cast_dt_us_9748766304430456150() {
    let concrete_vals: Vec<Vec<u8>> = vec![
        // -9223372036854775808
        vec![0, 0, 0, 0, 0, 0, 0, 128],
        // 3
        vec![3],
    ];
    kani::concrete_playback_run(concrete_vals, c15_cast_dt_us);
}

/// Test generated for harness `c15::c15_cast_dt_us` 
///
/// Check for `assertion`: ""DateTime -> f64: NaT gives NaN""
///
/// # Warning
///
/// Concrete playback tests combined with stubs or contracts is highly
/// experimental, and subject to change.
///
/// The original harness has stubs which are not applied to this test.
/// This may cause a mismatch of non-deterministic values if the stub
/// creates any non-deterministic value.
/// The execution path may also differ, which can be used to refine the stub
/// logic.

#[test]
fn kani_concrete_playback_c15_cast_dt_us_6973822324591078586() {
    let concrete_vals: Vec<Vec<u8>> = vec![
        // -9223372036854775808
        vec![0, 0, 0, 0, 0, 0, 0, 128],
        // 4
        vec![4],
    ];
    kani::concrete_playback_run(concrete_vals, c15_cast_dt_us);
}

/// Test generated for harness `c15::c15_cast_dt_us` 
///
/// Check for `cover`: "NaT source"
///
/// # Warning
///
/// Concrete playback tests combined with stubs or contracts is highly
/// experimental, and subject to change.
///
/// The original harness has stubs which are not applied to this test.
/// This may cause a mismatch of non-deterministic values if the stub
/// creates any non-deterministic value.
/// The execution path may also differ, which can be used to refine the stub
/// logic.

#[test]
fn kani_concrete_playback_c15_cast_dt_us_9053097839242129902() {
    let concrete_vals: Vec<Vec<u8>> = vec![
        // -9223372036854775808
        vec![0, 0, 0, 0, 0, 0, 0, 128],
        // 1
        vec![1],
    ];
    kani::concrete_playback_run(concrete_vals, c15_cast_dt_us);
}

/// Test generated for harness `c15::c15_cast_dt_us` 
///
/// Check for `cover`: "negative timestamp to f32"
///
/// # Warning
///
/// Concrete playback tests combined with stubs or contracts is highly
/// experimental, and subject to change.
///
/// The original harness has stubs which are not applied to this test.
/// This may cause a mismatch of non-deterministic values if the stub
/// creates any non-deterministic value.
/// The execution path may also differ, which can be used to refine the stub
/// logic.

#[test]
fn kani_concrete_playback_c15_cast_dt_us_652278844911416174() {
    let concrete_vals: Vec<Vec<u8>> = vec![
        // -9223372036854775796
        vec![12, 0, 0, 0, 0, 0, 0, 128],
        // 3
        vec![3],
    ];
    kani::concrete_playback_run(concrete_vals, c15_cast_dt_us);
}

/// Test generated for harness `c15::c15_cast_dt_us` 
///
/// Check for `cover`: "timestamp 1 to bool"
///
/// # Warning
///
/// Concrete playback tests combined with stubs or contracts is highly
/// experimental, and subject to change.
///
/// The original harness has stubs which are not applied to this test.
/// This may cause a mismatch of non-deterministic values if the stub
/// creates any non-deterministic value.
/// The execution path may also differ, which can be used to refine the stub
/// logic.

#[test]
fn kani_concrete_playback_c15_cast_dt_us_1548620499280737214() {
    let concrete_vals: Vec<Vec<u8>> = vec![
        // 1
        vec![1, 0, 0, 0, 0, 0, 0, 0],
        // 8
        vec![8],
    ];
    kani::concrete_playback_run(concrete_vals, c15_cast_dt_us);
}
