// counterexamples for harness c15::c15_cast_dt_s (property C15); replay: ./check C15 --replay <this file>
// features: c15
#![allow(unused_imports)]
use crate::c15::*;

/// Test generated for harness `c15::c15_cast_dt_s` 
///
/// Check for `assertion`: ""DateTime -> f32: NaT gives NaN""
///
/// # Warning
///
/// Concrete playback tests combined with stubs or contracts is highly
/// experimental, and subject to change.
///
/// The original harness has stubs which are not applied to this test.
/// This may cause a mismatch of non-deterministic values if the stub
/// creates any non-deterministic value.
/// The execution path may also differ, which can be used to refine the stub
/// logic.

#[test]
fn kani_concrete_playback_c15_cast_dt_s_14780980340033951496() {
    let concrete_vals: Vec<Vec<u8>> = vec![
        // -9223372036854775808
        vec![0, 0, 0, 0, 0, 0, 0, 128],
        // 3
        vec![3],
    ];
    kani::concrete_playback_run(concrete_vals, c15_cast_dt_s);
}

/// Test generated for harness `c15::c15_cast_dt_s` 
///
/// Check for `assertion`: ""DateTime -> f64: NaT gives NaN""
///
/// # Warning
///
/// Concrete playback tests combined with stubs or contracts is highly
/// experimental, and subject to change.
///
/// The original harness has stubs which are not applied to this test.
/// This may cause a mismatch of non-deterministic values if the stub
/// creates any non-deterministic value.
/// The execution path may also differ, which can be used to refine the stub
/// logic.

#[test]
fn kani_concrete_playback_c15_cast_dt_s_12097131159078024664() {
    let concrete_vals: Vec<Vec<u8>> = vec![
        // -9223372036854775808
        vec![0, 0, 0, 0, 0, 0, 0, 128],
        // 4
        vec![4],
    ];
    kani::concrete_playback_run(concrete_vals, c15_cast_dt_s);
}

/// Test generated for harness `c15::c15_cast_dt_s` 
///
/// Check for `cover`: "NaT source"
///
/// # Warning
///
/// Concrete playback tests combined with stubs or contracts is highly
/// experimental, and subject to change.
///
/// The original harness has stubs which are not applied to this test.
/// This may cause a mismatch of non-deterministic values if the stub
/// creates any non-deterministic value.
/// The execution path may also differ, which can be used to refine the stub
/// logic.

#[test]
fn kani_concrete_playback_c15_cast_dt_s_10833071979772227656() {
    let concrete_vals: Vec<Vec<u8>> = vec![
        // -9223372036854775808
        vec![0, 0, 0, 0, 0, 0, 0, 128],
        // 1
        vec![1],
    ];
    kani::concrete_playback_run(concrete_vals, c15_cast_dt_s);
}

/// Test generated for harness `c15::c15_cast_dt_s` 
///
/// Check for `cover`: "negative timestamp to f32"
///
/// # Warning
///
/// Concrete playback tests combined with stubs or contracts is highly
/// experimental, and subject to change.
///
/// The original harness has stubs which are not applied to this test.
/// This may cause a mismatch of non-deterministic values if the stub
/// creates any non-deterministic value.
/// The execution path may also differ, which can be used to refine the stub
/// logic.

#[test]
fn kani_concrete_playback_c15_cast_dt_s_16302115503188442721() {
    let concrete_vals: Vec<Vec<u8>> = vec![
        // -9223372036854775796
        vec![12, 0, 0, 0, 0, 0, 0, 128],
        // 3
        vec![3],
    ];
    kani::concrete_playback_run(concrete_vals, c15_cast_dt_s);
}

/// Test generated for harness `c15::c15_cast_dt_s` 
///
/// Check for `cover`: "timestamp 1 to bool"
///
/// # Warning
///
/// Concrete playback tests combined with stubs or contracts is highly
/// experimental, and subject to change.
///
/// The original harness has stubs which are not applied to this test.
/// This may cause a mismatch of non-deterministic values if the stub
/// creates any non-deterministic value.
/// The execution path may also differ, which can be used to refine the stub
/// logic.

#[test]
fn kani_concrete_playback_c15_cast_dt_s_10010671610189318225() {
    let concrete_vals: Vec<Vec<u8>> = vec![
        // 1
        vec![1, 0, 0, 0, 0, 0, 0, 0],
        // 8
        vec![8],
    ];
    kani::concrete_playback_run(concrete_vals, c15_cast_dt_s);
}
