// counterexamples for harness c15::c15_cast_timedelta_nat (property C15); replay: ./check C15 --replay <this file>
// features: c15
#![allow(unused_imports)]
use crate::c15::*;

/// Test generated for harness `c15::c15_cast_timedelta_nat` 
///
/// Check for `assertion`: "not support cast TimeDelta to i64 when months is not zero"
///
/// # Warning
///
/// Concrete playback tests combined with stubs or contracts is highly
/// experimental, and subject to change.
///
/// The original harness has stubs which are not applied to this test.
/// This may cause a mismatch of non-deterministic values if the stub
/// creates any non-deterministic value.
/// The execution path may also differ, which can be used to refine the stub
/// logic.

#[test]
fn kani_concrete_playback_c15_cast_timedelta_nat_1532208704076794703() {
    let concrete_vals: Vec<Vec<u8>> = vec![
        // 0
        vec![0],
    ];
    kani::concrete_playback_run(concrete_vals, c15_cast_timedelta_nat);
}

/// Test generated for harness `c15::c15_cast_timedelta_nat` 
///
/// Check for `assertion`: "not support cast TimeDelta to i64 when months is not zero"
///
/// # Warning
///
/// Concrete playback tests combined with stubs or contracts is highly
/// experimental, and subject to change.
///
/// The original harness has stubs which are not applied to this test.
/// This may cause a mismatch of non-deterministic values if the stub
/// creates any non-deterministic value.
/// The execution path may also differ, which can be used to refine the stub
/// logic.

#[test]
fn kani_concrete_playback_c15_cast_timedelta_nat_3451554441213362642() {
    let concrete_vals: Vec<Vec<u8>> = vec![
        // 1
        vec![1],
    ];
    kani::concrete_playback_run(concrete_vals, c15_cast_timedelta_nat);
}
