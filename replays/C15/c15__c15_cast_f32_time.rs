// counterexamples for harness c15::c15_cast_f32_time (property C15); replay: ./check C15 --replay <this file>
// features: c15
#![allow(unused_imports)]
use crate::c15::*;

/// Test generated for harness `c15::c15_cast_f32_time` 
///
/// Check for `assertion`: ""f32 -> DateTime<ns>: null (NaN) gives NaT""

#[test]
fn kani_concrete_playback_c15_cast_f32_time_1306805068032243014() {
    let concrete_vals: Vec<Vec<u8>> = vec![
        // +NaN
        vec![255, 255, 255, 127],
        // 0
        vec![0],
        // 0
        vec![0],
        // 0
        vec![0],
    ];
    kani::concrete_playback_run(concrete_vals, c15_cast_f32_time);
}

/// Test generated for harness `c15::c15_cast_f32_time` 
///
/// Check for `assertion`: ""f32 -> DateTime<us>: null (NaN) gives NaT""

#[test]
fn kani_concrete_playback_c15_cast_f32_time_8200389135804335189() {
    let concrete_vals: Vec<Vec<u8>> = vec![
        // +NaN
        vec![127, 224, 247, 127],
        // 0
        vec![0],
        // 1
        vec![1],
        // 0
        vec![0],
    ];
    kani::concrete_playback_run(concrete_vals, c15_cast_f32_time);
}

/// Test generated for harness `c15::c15_cast_f32_time` 
///
/// Check for `assertion`: ""f32 -> DateTime<ms>: null (NaN) gives NaT""

#[test]
fn kani_concrete_playback_c15_cast_f32_time_7613386773204095312() {
    let concrete_vals: Vec<Vec<u8>> = vec![
        // -NaN
        vec![221, 255, 255, 255],
        // 1
        vec![1],
        // -6.941714e-8
        vec![122, 18, 149, 179],
        // 2
        vec![2],
        // 0
        vec![0],
    ];
    kani::concrete_playback_run(concrete_vals, c15_cast_f32_time);
}

/// Test generated for harness `c15::c15_cast_f32_time` 
///
/// Check for `assertion`: ""f32 -> DateTime<s>: null (NaN) gives NaT""

#[test]
fn kani_concrete_playback_c15_cast_f32_time_17486535560215667204() {
    let concrete_vals: Vec<Vec<u8>> = vec![
        // -NaN
        vec![221, 255, 255, 255],
        // 1
        vec![1],
        // -6.941714e-8
        vec![122, 18, 149, 179],
        // 3
        vec![3],
        // 0
        vec![0],
    ];
    kani::concrete_playback_run(concrete_vals, c15_cast_f32_time);
}

/// Test generated for harness `c15::c15_cast_f32_time` 
///
/// Check for `assertion`: ""f32 -> Time: null (NaN) gives NaT""

#[test]
fn kani_concrete_playback_c15_cast_f32_time_12503532317303691514() {
    let concrete_vals: Vec<Vec<u8>> = vec![
        // -NaN
        vec![221, 255, 255, 255],
        // 1
        vec![1],
        // -1.794391e-33
        vec![123, 18, 21, 137],
        // 4
        vec![4],
        // 0
        vec![0],
    ];
    kani::concrete_playback_run(concrete_vals, c15_cast_f32_time);
}

/// Test generated for harness `c15::c15_cast_f32_time` 
///
/// Check for `assertion`: ""f32 -> TimeDelta: null (NaN) gives NaT""

#[test]
fn kani_concrete_playback_c15_cast_f32_time_10229656714845096225() {
    let concrete_vals: Vec<Vec<u8>> = vec![
        // -NaN
        vec![221, 255, 255, 255],
        // 1
        vec![1],
        // 3.402823e+38
        vec![255, 255, 127, 127],
        // 5
        vec![5],
        // 0
        vec![0],
    ];
    kani::concrete_playback_run(concrete_vals, c15_cast_f32_time);
}

/// Test generated for harness `c15::c15_cast_f32_time` 
///
/// Check for `cover`: "non-null source, TimeDelta"

#[test]
fn kani_concrete_playback_c15_cast_f32_time_6909017977217480188() {
    let concrete_vals: Vec<Vec<u8>> = vec![
        // 0
        vec![0, 0, 0, 0],
        // 0
        vec![0],
        // 5
        vec![5],
        // 0
        vec![0],
    ];
    kani::concrete_playback_run(concrete_vals, c15_cast_f32_time);
}

/// Test generated for harness `c15::c15_cast_f32_time` 
///
/// Check for `cover`: "None source, TimeDelta"

#[test]
fn kani_concrete_playback_c15_cast_f32_time_2899741465206272942() {
    let concrete_vals: Vec<Vec<u8>> = vec![
        // 1.039925e+9
        vec![255, 239, 119, 78],
        // 0
        vec![0],
        // 5
        vec![5],
        // 1
        vec![1],
    ];
    kani::concrete_playback_run(concrete_vals, c15_cast_f32_time);
}

/// Test generated for harness `c15::c15_cast_f32_time` 
///
/// Check for `cover`: "Some source, Time"

#[test]
fn kani_concrete_playback_c15_cast_f32_time_14980660699610747125() {
    let concrete_vals: Vec<Vec<u8>> = vec![
        // 0.066406
        vec![0, 0, 136, 61],
        // 1
        vec![1],
        // 8.388605e+6
        vec![250, 255, 255, 74],
        // 4
        vec![4],
        // 1
        vec![1],
    ];
    kani::concrete_playback_run(concrete_vals, c15_cast_f32_time);
}
