// counterexamples for harness c15::c15_isnone_f32 (property C15); replay: ./check C15 --replay <this file>
// features: c15
#![allow(unused_imports)]
use crate::c15::*;

/// Test generated for harness `c15::c15_isnone_f32` 
///
/// Check for `cover`: "null input"

#[test]
fn kani_concrete_playback_c15_isnone_f32_5890651029822116950() {
    let concrete_vals: Vec<Vec<u8>> = vec![
        // -NaN
        vec![255, 255, 255, 255],
    ];
    kani::concrete_playback_run(concrete_vals, c15_isnone_f32);
}

/// Test generated for harness `c15::c15_isnone_f32` 
///
/// Check for `cover`: "non-null input"

#[test]
fn kani_concrete_playback_c15_isnone_f32_12615880015750247398() {
    let concrete_vals: Vec<Vec<u8>> = vec![
        // 0
        vec![0, 0, 0, 0],
    ];
    kani::concrete_playback_run(concrete_vals, c15_isnone_f32);
}
