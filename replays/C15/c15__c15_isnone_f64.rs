// counterexamples for harness c15::c15_isnone_f64 (property C15); replay: ./check C15 --replay <this file>
// features: c15
#![allow(unused_imports)]
use crate::c15::*;

/// Test generated for harness `c15::c15_isnone_f64` 
///
/// Check for `assertion`: ""map of a null is the null of the target for every closure (agrees with to_opt().map)""

#[test]
fn kani_concrete_playback_c15_isnone_f64_9626870071003394951() {
    let concrete_vals: Vec<Vec<u8>> = vec![
        // -NaN
        vec![255, 255, 255, 255, 255, 255, 255, 255],
    ];
    kani::concrete_playback_run(concrete_vals, c15_isnone_f64);
}

/// Test generated for harness `c15::c15_isnone_f64` 
///
/// Check for `cover`: "non-null input"

#[test]
fn kani_concrete_playback_c15_isnone_f64_6511639649084873541() {
    let concrete_vals: Vec<Vec<u8>> = vec![
        // 0
        vec![0, 0, 0, 0, 0, 0, 0, 0],
    ];
    kani::concrete_playback_run(concrete_vals, c15_isnone_f64);
}
