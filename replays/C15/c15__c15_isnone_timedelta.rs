// counterexamples for harness c15::c15_isnone_timedelta (property C15); replay: ./check C15 --replay <this file>
// features: c15
#![allow(unused_imports)]
use crate::c15::*;

/// Test generated for harness `c15::c15_isnone_timedelta` 
///
/// Check for `assertion`: ""map of a null is the null of the target for every closure (agrees with to_opt().map)""

#[test]
fn kani_concrete_playback_c15_isnone_timedelta_3624937363761000736() {
    let concrete_vals: Vec<Vec<u8>> = vec![
        // 9223372036854775
        vec![247, 83, 227, 165, 155, 196, 32, 0],
        // 134217727
        vec![255, 255, 255, 7],
        // -2147483648
        vec![0, 0, 0, 128],
    ];
    kani::concrete_playback_run(concrete_vals, c15_isnone_timedelta);
}

/// Test generated for harness `c15::c15_isnone_timedelta` 
///
/// Check for `cover`: "non-null input"

#[test]
fn kani_concrete_playback_c15_isnone_timedelta_657397352967224949() {
    let concrete_vals: Vec<Vec<u8>> = vec![
        // 9223372036854775
        vec![247, 83, 227, 165, 155, 196, 32, 0],
        // 134217727
        vec![255, 255, 255, 7],
        // -1
        vec![255, 255, 255, 255],
    ];
    kani::concrete_playback_run(concrete_vals, c15_isnone_timedelta);
}
