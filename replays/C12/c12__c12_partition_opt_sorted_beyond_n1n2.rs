// counterexamples for harness c12::c12_partition_opt_sorted_beyond_n1n2 (property C12); replay: ./check C12 --replay <this file>
// features: c12
#![allow(unused_imports)]
use crate::c12::*;

/// Test generated for harness `c12::c12_partition_opt_sorted_beyond_n1n2` 
///
/// Check for `assertion`: ""partition yields exactly k+1 entries""
///
/// # Warning
///
/// Concrete playback tests combined with stubs or contracts is highly
/// experimental, and subject to change.
///
/// The original harness has stubs which are not applied to this test.
/// This may cause a mismatch of non-deterministic values if the stub
/// creates any non-deterministic value.
/// The execution path may also differ, which can be used to refine the stub
/// logic.

#[test]
fn kani_concrete_playback_c12_partition_opt_sorted_beyond_n1n2_15458662521648749() {
    let concrete_vals: Vec<Vec<u8>> = vec![
        // 1
        vec![1],
        // -1
        vec![255, 255, 255, 255],
        // 1
        vec![1],
        // -1
        vec![255, 255, 255, 255],
        // 1
        vec![1],
        // -1
        vec![255, 255, 255, 255],
    ];
    kani::concrete_playback_run(concrete_vals, c12_partition_opt_sorted_beyond_n1n2);
}
