// counterexamples for harness c12::c12_quantile_single_any_n3 (property C12); replay: ./check C12 --replay <this file>
// features: c12
#![allow(unused_imports)]
use crate::c12::*;

/// Test generated for harness `c12::c12_quantile_single_any_n3` 
///
/// Check for `assertion`: ""quantile is null only when there is no valid element""
///
/// # Warning
///
/// Concrete playback tests combined with stubs or contracts is highly
/// experimental, and subject to change.
///
/// The original harness has stubs which are not applied to this test.
/// This may cause a mismatch of non-deterministic values if the stub
/// creates any non-deterministic value.
/// The execution path may also differ, which can be used to refine the stub
/// logic.

#[test]
fn kani_concrete_playback_c12_quantile_single_any_n3_4580285121587050355() {
    let concrete_vals: Vec<Vec<u8>> = vec![
        // 0
        vec![0],
        // 0
        vec![0],
        // 1
        vec![1],
        // 1073741825
        vec![1, 0, 0, 64],
        // 6ul
        vec![6, 0, 0, 0, 0, 0, 0, 0],
        // 0
        vec![0],
    ];
    kani::concrete_playback_run(concrete_vals, c12_quantile_single_any_n3);
}

/// Test generated for harness `c12::c12_quantile_single_any_n3` 
///
/// Check for `cover`: "q above one half"
///
/// # Warning
///
/// Concrete playback tests combined with stubs or contracts is highly
/// experimental, and subject to change.
///
/// The original harness has stubs which are not applied to this test.
/// This may cause a mismatch of non-deterministic values if the stub
/// creates any non-deterministic value.
/// The execution path may also differ, which can be used to refine the stub
/// logic.

#[test]
fn kani_concrete_playback_c12_quantile_single_any_n3_2384762159439347031() {
    let concrete_vals: Vec<Vec<u8>> = vec![
        // 1
        vec![1],
        // -256
        vec![0, 255, 255, 255],
        // 0
        vec![0],
        // 0
        vec![0],
        // 5ul
        vec![5, 0, 0, 0, 0, 0, 0, 0],
        // 1
        vec![1],
    ];
    kani::concrete_playback_run(concrete_vals, c12_quantile_single_any_n3);
}
