// counterexamples for harness c12::c12_rank_f64_n0n1 (property C12); replay: ./check C12 --replay <this file>
// features: c12
#![allow(unused_imports)]
use crate::c12::*;

/// Test generated for harness `c12::c12_rank_f64_n0n1` 
///
/// Check for `assertion`: ""null element gets a null rank""
///
/// # Warning
///
/// Concrete playback tests combined with stubs or contracts is highly
/// experimental, and subject to change.
///
/// The original harness has stubs which are not applied to this test.
/// This may cause a mismatch of non-deterministic values if the stub
/// creates any non-deterministic value.
/// The execution path may also differ, which can be used to refine the stub
/// logic.

#[test]
fn kani_concrete_playback_c12_rank_f64_n0n1_5903988549484077343() {
    let concrete_vals: Vec<Vec<u8>> = vec![
        // 0
        vec![0],
        // 1
        vec![1],
        // 0
        vec![0],
    ];
    kani::concrete_playback_run(concrete_vals, c12_rank_f64_n0n1);
}

/// Test generated for harness `c12::c12_rank_f64_n0n1` 
///
/// Check for `cover`: "fractional ranks"
///
/// # Warning
///
/// Concrete playback tests combined with stubs or contracts is highly
/// experimental, and subject to change.
///
/// The original harness has stubs which are not applied to this test.
/// This may cause a mismatch of non-deterministic values if the stub
/// creates any non-deterministic value.
/// The execution path may also differ, which can be used to refine the stub
/// logic.

#[test]
fn kani_concrete_playback_c12_rank_f64_n0n1_3657277223452723248() {
    let concrete_vals: Vec<Vec<u8>> = vec![
        // 1
        vec![1],
        // 1
        vec![1],
        // 1
        vec![1],
        // 1
        vec![1, 0, 0, 0],
    ];
    kani::concrete_playback_run(concrete_vals, c12_rank_f64_n0n1);
}
