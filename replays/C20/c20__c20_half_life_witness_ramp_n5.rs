// counterexamples for harness c20::c20_half_life_witness_ramp_n5 (property C20); replay: ./check C20 --replay <this file>
// features: c20
#![allow(unused_imports)]
use crate::c20::*;

/// Test generated for harness `c20::c20_half_life_witness_ramp_n5` 
///
/// Check for `assertion`: "attempt to subtract with overflow"
///
/// # Warning
///
/// Concrete playback tests combined with stubs or contracts is highly
/// experimental, and subject to change.
///
/// The original harness has stubs which are not applied to this test.
/// This may cause a mismatch of non-deterministic values if the stub
/// creates any non-deterministic value.
/// The execution path may also differ, which can be used to refine the stub
/// logic.

#[test]
fn kani_concrete_playback_c20_half_life_witness_ramp_n5_742416566166662516() {
    let concrete_vals: Vec<Vec<u8>> = vec![
        // 0
        vec![0],
    ];
    kani::concrete_playback_run(concrete_vals, c20_half_life_witness_ramp_n5);
}
