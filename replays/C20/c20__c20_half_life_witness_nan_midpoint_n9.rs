// counterexamples for harness c20::c20_half_life_witness_nan_midpoint_n9 (property C20); replay: ./check C20 --replay <this file>
// features: c20
#![allow(unused_imports)]
use crate::c20::*;

/// Test generated for harness `c20::c20_half_life_witness_nan_midpoint_n9` 
///
/// Check for `assertion`: ""half_life([4,2,6,6,7,7,8,7,9]): autocorrelation above 0.5 at lags 1..4, 0.09 at lag 5, null from lag 6: expected 5""
///
/// # Warning
///
/// Concrete playback tests combined with stubs or contracts is highly
/// experimental, and subject to change.
///
/// The original harness has stubs which are not applied to this test.
/// This may cause a mismatch of non-deterministic values if the stub
/// creates any non-deterministic value.
/// The execution path may also differ, which can be used to refine the stub
/// logic.

#[test]
fn kani_concrete_playback_c20_half_life_witness_nan_midpoint_n9_16648473723444731293() {
    let concrete_vals: Vec<Vec<u8>> = vec![
        // 0
        vec![0],
    ];
    kani::concrete_playback_run(concrete_vals, c20_half_life_witness_nan_midpoint_n9);
}
