// counterexamples for harness c10::c10_w0_drivers_nd_n2 (property C10); replay: ./check C10 --replay <this file>
// features: c10
#![allow(unused_imports)]
use crate::c10::*;

/// Test generated for harness `c10::c10_w0_drivers_nd_n2` 
///
/// Check for `assertion`: ""rolling2_apply_idx returned: every output slot written before assume_init""
///
/// # Warning
///
/// Concrete playback tests combined with stubs or contracts is highly
/// experimental, and subject to change.
///
/// The original harness has stubs which are not applied to this test.
/// This may cause a mismatch of non-deterministic values if the stub
/// creates any non-deterministic value.
/// The execution path may also differ, which can be used to refine the stub
/// logic.

#[test]
fn kani_concrete_playback_c10_w0_drivers_nd_n2_11905326649284683296() {
    let concrete_vals: Vec<Vec<u8>> = vec![
        // 0
        vec![0, 0, 0, 0],
        // 0
        vec![0, 0, 0, 0],
        // 0
        vec![0, 0, 0, 0],
        // 0
        vec![0, 0, 0, 0],
        // 3
        vec![3],
    ];
    kani::concrete_playback_run(concrete_vals, c10_w0_drivers_nd_n2);
}

/// Test generated for harness `c10::c10_w0_drivers_nd_n2` 
///
/// Check for `assertion`: ""rolling_custom returned: every output slot written before assume_init""
///
/// # Warning
///
/// Concrete playback tests combined with stubs or contracts is highly
/// experimental, and subject to change.
///
/// The original harness has stubs which are not applied to this test.
/// This may cause a mismatch of non-deterministic values if the stub
/// creates any non-deterministic value.
/// The execution path may also differ, which can be used to refine the stub
/// logic.

#[test]
fn kani_concrete_playback_c10_w0_drivers_nd_n2_1717125616855861653() {
    let concrete_vals: Vec<Vec<u8>> = vec![
        // 0
        vec![0, 0, 0, 0],
        // 0
        vec![0, 0, 0, 0],
        // 0
        vec![0, 0, 0, 0],
        // 0
        vec![0, 0, 0, 0],
        // 4
        vec![4],
    ];
    kani::concrete_playback_run(concrete_vals, c10_w0_drivers_nd_n2);
}

/// Test generated for harness `c10::c10_w0_drivers_nd_n2` 
///
/// Check for `assertion`: ""rolling_apply_idx returned: every output slot written before assume_init""
///
/// # Warning
///
/// Concrete playback tests combined with stubs or contracts is highly
/// experimental, and subject to change.
///
/// The original harness has stubs which are not applied to this test.
/// This may cause a mismatch of non-deterministic values if the stub
/// creates any non-deterministic value.
/// The execution path may also differ, which can be used to refine the stub
/// logic.

#[test]
fn kani_concrete_playback_c10_w0_drivers_nd_n2_9927752631507183988() {
    let concrete_vals: Vec<Vec<u8>> = vec![
        // 0
        vec![0, 0, 0, 0],
        // 0
        vec![0, 0, 0, 0],
        // 0
        vec![0, 0, 0, 0],
        // 0
        vec![0, 0, 0, 0],
        // 1
        vec![1],
    ];
    kani::concrete_playback_run(concrete_vals, c10_w0_drivers_nd_n2);
}

/// Test generated for harness `c10::c10_w0_drivers_nd_n2` 
///
/// Check for `assertion`: ""rolling_apply returned: every output slot written before assume_init""
///
/// # Warning
///
/// Concrete playback tests combined with stubs or contracts is highly
/// experimental, and subject to change.
///
/// The original harness has stubs which are not applied to this test.
/// This may cause a mismatch of non-deterministic values if the stub
/// creates any non-deterministic value.
/// The execution path may also differ, which can be used to refine the stub
/// logic.

#[test]
fn kani_concrete_playback_c10_w0_drivers_nd_n2_14611380597697617017() {
    let concrete_vals: Vec<Vec<u8>> = vec![
        // 0
        vec![0, 0, 0, 0],
        // 0
        vec![0, 0, 0, 0],
        // 0
        vec![0, 0, 0, 0],
        // 0
        vec![0, 0, 0, 0],
        // 0
        vec![0],
    ];
    kani::concrete_playback_run(concrete_vals, c10_w0_drivers_nd_n2);
}

/// Test generated for harness `c10::c10_w0_drivers_nd_n2` 
///
/// Check for `assertion`: ""rolling2_apply returned: every output slot written before assume_init""
///
/// # Warning
///
/// Concrete playback tests combined with stubs or contracts is highly
/// experimental, and subject to change.
///
/// The original harness has stubs which are not applied to this test.
/// This may cause a mismatch of non-deterministic values if the stub
/// creates any non-deterministic value.
/// The execution path may also differ, which can be used to refine the stub
/// logic.

#[test]
fn kani_concrete_playback_c10_w0_drivers_nd_n2_15630158060829636254() {
    let concrete_vals: Vec<Vec<u8>> = vec![
        // 0
        vec![0, 0, 0, 0],
        // 0
        vec![0, 0, 0, 0],
        // 0
        vec![0, 0, 0, 0],
        // 0
        vec![0, 0, 0, 0],
        // 2
        vec![2],
    ];
    kani::concrete_playback_run(concrete_vals, c10_w0_drivers_nd_n2);
}
