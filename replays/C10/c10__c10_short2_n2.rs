// counterexamples for harness c10::c10_short2_n2 (property C10); replay: ./check C10 --replay <this file>
// features: c10
#![allow(unused_imports)]
use crate::c10::*;

/// Test generated for harness `c10::c10_short2_n2` 
///
/// Check for `safety_check`: "dereference failure: pointer invalid"
///
/// # Warning
///
/// Concrete playback tests combined with stubs or contracts is highly
/// experimental, and subject to change.
///
/// The original harness has stubs which are not applied to this test.
/// This may cause a mismatch of non-deterministic values if the stub
/// creates any non-deterministic value.
/// The execution path may also differ, which can be used to refine the stub
/// logic.

#[test]
fn kani_concrete_playback_c10_short2_n2_4494774740848475047() {
    let concrete_vals: Vec<Vec<u8>> = vec![
        // -1
        vec![255, 255, 255, 255],
        // -1
        vec![255, 255, 255, 255],
        // -1
        vec![255, 255, 255, 255],
        // 5ul
        vec![5, 0, 0, 0, 0, 0, 0, 0],
        // 2
        vec![2],
        // 255
        vec![255],
    ];
    kani::concrete_playback_run(concrete_vals, c10_short2_n2);
}

/// Test generated for harness `c10::c10_short2_n2` 
///
/// Check for `assume`: "Rust intrinsic assumption failed"
///
/// # Warning
///
/// Concrete playback tests combined with stubs or contracts is highly
/// experimental, and subject to change.
///
/// The original harness has stubs which are not applied to this test.
/// This may cause a mismatch of non-deterministic values if the stub
/// creates any non-deterministic value.
/// The execution path may also differ, which can be used to refine the stub
/// logic.

#[test]
fn kani_concrete_playback_c10_short2_n2_10222134521877415567() {
    let concrete_vals: Vec<Vec<u8>> = vec![
        // -1
        vec![255, 255, 255, 255],
        // -1
        vec![255, 255, 255, 255],
        // -1
        vec![255, 255, 255, 255],
        // 1ul
        vec![1, 0, 0, 0, 0, 0, 0, 0],
        // 0
        vec![0],
        // 255
        vec![255],
    ];
    kani::concrete_playback_run(concrete_vals, c10_short2_n2);
}

/// Test generated for harness `c10::c10_short2_n2` 
///
/// Check for `assertion`: "index out of bounds: the length is less than or equal to the given index"
///
/// # Warning
///
/// Concrete playback tests combined with stubs or contracts is highly
/// experimental, and subject to change.
///
/// The original harness has stubs which are not applied to this test.
/// This may cause a mismatch of non-deterministic values if the stub
/// creates any non-deterministic value.
/// The execution path may also differ, which can be used to refine the stub
/// logic.

#[test]
fn kani_concrete_playback_c10_short2_n2_11520210793910836700() {
    let concrete_vals: Vec<Vec<u8>> = vec![
        // -1
        vec![255, 255, 255, 255],
        // -1
        vec![255, 255, 255, 255],
        // -1
        vec![255, 255, 255, 255],
        // 1ul
        vec![1, 0, 0, 0, 0, 0, 0, 0],
        // 1
        vec![1],
        // 255
        vec![255],
    ];
    kani::concrete_playback_run(concrete_vals, c10_short2_n2);
}
