// counterexamples for harness c10::c10_w0_drivers_vec_n2 (property C10); replay: ./check C10 --replay <this file>
// features: c10
#![allow(unused_imports)]
use crate::c10::*;

/// Test generated for harness `c10::c10_w0_drivers_vec_n2` 
///
/// Check for `assertion`: ""rolling_apply out: every output slot written before assume_init""
///
/// # Warning
///
/// Concrete playback tests combined with stubs or contracts is highly
/// experimental, and subject to change.
///
/// The original harness has stubs which are not applied to this test.
/// This may cause a mismatch of non-deterministic values if the stub
/// creates any non-deterministic value.
/// The execution path may also differ, which can be used to refine the stub
/// logic.

#[test]
fn kani_concrete_playback_c10_w0_drivers_vec_n2_5876635645214271561() {
    let concrete_vals: Vec<Vec<u8>> = vec![
        // 0
        vec![0, 0, 0, 0],
        // 0
        vec![0, 0, 0, 0],
        // 0
        vec![0, 0, 0, 0],
        // 0
        vec![0, 0, 0, 0],
        // 5
        vec![5],
    ];
    kani::concrete_playback_run(concrete_vals, c10_w0_drivers_vec_n2);
}

/// Test generated for harness `c10::c10_w0_drivers_vec_n2` 
///
/// Check for `assertion`: ""rolling_apply_idx out: every output slot written before assume_init""
///
/// # Warning
///
/// Concrete playback tests combined with stubs or contracts is highly
/// experimental, and subject to change.
///
/// The original harness has stubs which are not applied to this test.
/// This may cause a mismatch of non-deterministic values if the stub
/// creates any non-deterministic value.
/// The execution path may also differ, which can be used to refine the stub
/// logic.

#[test]
fn kani_concrete_playback_c10_w0_drivers_vec_n2_17685281110121349332() {
    let concrete_vals: Vec<Vec<u8>> = vec![
        // 0
        vec![0, 0, 0, 0],
        // 0
        vec![0, 0, 0, 0],
        // 0
        vec![0, 0, 0, 0],
        // 0
        vec![0, 0, 0, 0],
        // 6
        vec![6],
    ];
    kani::concrete_playback_run(concrete_vals, c10_w0_drivers_vec_n2);
}

/// Test generated for harness `c10::c10_w0_drivers_vec_n2` 
///
/// Check for `assertion`: ""rolling_custom out: every output slot written before assume_init""
///
/// # Warning
///
/// Concrete playback tests combined with stubs or contracts is highly
/// experimental, and subject to change.
///
/// The original harness has stubs which are not applied to this test.
/// This may cause a mismatch of non-deterministic values if the stub
/// creates any non-deterministic value.
/// The execution path may also differ, which can be used to refine the stub
/// logic.

#[test]
fn kani_concrete_playback_c10_w0_drivers_vec_n2_16670622784358703668() {
    let concrete_vals: Vec<Vec<u8>> = vec![
        // -1
        vec![255, 255, 255, 255],
        // -1
        vec![255, 255, 255, 255],
        // -1
        vec![255, 255, 255, 255],
        // -1
        vec![255, 255, 255, 255],
        // 9
        vec![9],
    ];
    kani::concrete_playback_run(concrete_vals, c10_w0_drivers_vec_n2);
}

/// Test generated for harness `c10::c10_w0_drivers_vec_n2` 
///
/// Check for `assertion`: ""rolling_custom returned: every output slot written before assume_init""
///
/// # Warning
///
/// Concrete playback tests combined with stubs or contracts is highly
/// experimental, and subject to change.
///
/// The original harness has stubs which are not applied to this test.
/// This may cause a mismatch of non-deterministic values if the stub
/// creates any non-deterministic value.
/// The execution path may also differ, which can be used to refine the stub
/// logic.

#[test]
fn kani_concrete_playback_c10_w0_drivers_vec_n2_7749402998110490899() {
    let concrete_vals: Vec<Vec<u8>> = vec![
        // 0
        vec![0, 0, 0, 0],
        // 0
        vec![0, 0, 0, 0],
        // 0
        vec![0, 0, 0, 0],
        // 0
        vec![0, 0, 0, 0],
        // 4
        vec![4],
    ];
    kani::concrete_playback_run(concrete_vals, c10_w0_drivers_vec_n2);
}

/// Test generated for harness `c10::c10_w0_drivers_vec_n2` 
///
/// Check for `assertion`: ""rolling_apply_idx returned: every output slot written before assume_init""
///
/// # Warning
///
/// Concrete playback tests combined with stubs or contracts is highly
/// experimental, and subject to change.
///
/// The original harness has stubs which are not applied to this test.
/// This may cause a mismatch of non-deterministic values if the stub
/// creates any non-deterministic value.
/// The execution path may also differ, which can be used to refine the stub
/// logic.

#[test]
fn kani_concrete_playback_c10_w0_drivers_vec_n2_4925370146422991580() {
    let concrete_vals: Vec<Vec<u8>> = vec![
        // 0
        vec![0, 0, 0, 0],
        // 0
        vec![0, 0, 0, 0],
        // 0
        vec![0, 0, 0, 0],
        // 0
        vec![0, 0, 0, 0],
        // 1
        vec![1],
    ];
    kani::concrete_playback_run(concrete_vals, c10_w0_drivers_vec_n2);
}

/// Test generated for harness `c10::c10_w0_drivers_vec_n2` 
///
/// Check for `assertion`: ""rolling2_apply_idx out: every output slot written before assume_init""
///
/// # Warning
///
/// Concrete playback tests combined with stubs or contracts is highly
/// experimental, and subject to change.
///
/// The original harness has stubs which are not applied to this test.
/// This may cause a mismatch of non-deterministic values if the stub
/// creates any non-deterministic value.
/// The execution path may also differ, which can be used to refine the stub
/// logic.

#[test]
fn kani_concrete_playback_c10_w0_drivers_vec_n2_15618288425394513659() {
    let concrete_vals: Vec<Vec<u8>> = vec![
        // 0
        vec![0, 0, 0, 0],
        // 0
        vec![0, 0, 0, 0],
        // 0
        vec![0, 0, 0, 0],
        // 0
        vec![0, 0, 0, 0],
        // 8
        vec![8],
    ];
    kani::concrete_playback_run(concrete_vals, c10_w0_drivers_vec_n2);
}

/// Test generated for harness `c10::c10_w0_drivers_vec_n2` 
///
/// Check for `assertion`: ""rolling_apply returned: every output slot written before assume_init""
///
/// # Warning
///
/// Concrete playback tests combined with stubs or contracts is highly
/// experimental, and subject to change.
///
/// The original harness has stubs which are not applied to this test.
/// This may cause a mismatch of non-deterministic values if the stub
/// creates any non-deterministic value.
/// The execution path may also differ, which can be used to refine the stub
/// logic.

#[test]
fn kani_concrete_playback_c10_w0_drivers_vec_n2_14342045093488830114() {
    let concrete_vals: Vec<Vec<u8>> = vec![
        // 0
        vec![0, 0, 0, 0],
        // 0
        vec![0, 0, 0, 0],
        // 0
        vec![0, 0, 0, 0],
        // 0
        vec![0, 0, 0, 0],
        // 0
        vec![0],
    ];
    kani::concrete_playback_run(concrete_vals, c10_w0_drivers_vec_n2);
}

/// Test generated for harness `c10::c10_w0_drivers_vec_n2` 
///
/// Check for `assertion`: ""rolling2_apply out: every output slot written before assume_init""
///
/// # Warning
///
/// Concrete playback tests combined with stubs or contracts is highly
/// experimental, and subject to change.
///
/// The original harness has stubs which are not applied to this test.
/// This may cause a mismatch of non-deterministic values if the stub
/// creates any non-deterministic value.
/// The execution path may also differ, which can be used to refine the stub
/// logic.

#[test]
fn kani_concrete_playback_c10_w0_drivers_vec_n2_14770938938339209412() {
    let concrete_vals: Vec<Vec<u8>> = vec![
        // 0
        vec![0, 0, 0, 0],
        // 0
        vec![0, 0, 0, 0],
        // 0
        vec![0, 0, 0, 0],
        // 0
        vec![0, 0, 0, 0],
        // 7
        vec![7],
    ];
    kani::concrete_playback_run(concrete_vals, c10_w0_drivers_vec_n2);
}

/// Test generated for harness `c10::c10_w0_drivers_vec_n2` 
///
/// Check for `assertion`: ""rolling2_apply returned: every output slot written before assume_init""
///
/// # Warning
///
/// Concrete playback tests combined with stubs or contracts is highly
/// experimental, and subject to change.
///
/// The original harness has stubs which are not applied to this test.
/// This may cause a mismatch of non-deterministic values if the stub
/// creates any non-deterministic value.
/// The execution path may also differ, which can be used to refine the stub
/// logic.

#[test]
fn kani_concrete_playback_c10_w0_drivers_vec_n2_6328232655236535697() {
    let concrete_vals: Vec<Vec<u8>> = vec![
        // 0
        vec![0, 0, 0, 0],
        // 0
        vec![0, 0, 0, 0],
        // 0
        vec![0, 0, 0, 0],
        // 0
        vec![0, 0, 0, 0],
        // 2
        vec![2],
    ];
    kani::concrete_playback_run(concrete_vals, c10_w0_drivers_vec_n2);
}

/// Test generated for harness `c10::c10_w0_drivers_vec_n2` 
///
/// Check for `assertion`: ""rolling2_apply_idx returned: every output slot written before assume_init""
///
/// # Warning
///
/// Concrete playback tests combined with stubs or contracts is highly
/// experimental, and subject to change.
///
/// The original harness has stubs which are not applied to this test.
/// This may cause a mismatch of non-deterministic values if the stub
/// creates any non-deterministic value.
/// The execution path may also differ, which can be used to refine the stub
/// logic.

#[test]
fn kani_concrete_playback_c10_w0_drivers_vec_n2_12756378609986005659() {
    let concrete_vals: Vec<Vec<u8>> = vec![
        // 0
        vec![0, 0, 0, 0],
        // 0
        vec![0, 0, 0, 0],
        // 0
        vec![0, 0, 0, 0],
        // 0
        vec![0, 0, 0, 0],
        // 3
        vec![3],
    ];
    kani::concrete_playback_run(concrete_vals, c10_w0_drivers_vec_n2);
}
