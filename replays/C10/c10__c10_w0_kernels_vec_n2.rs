// counterexamples for harness c10::c10_w0_kernels_vec_n2 (property C10); replay: ./check C10 --replay <this file>
// features: c10
#![allow(unused_imports)]
use crate::c10::*;

/// Test generated for harness `c10::c10_w0_kernels_vec_n2` 
///
/// Check for `assertion`: ""ts_vmin: every output slot written""
///
/// # Warning
///
/// Concrete playback tests combined with stubs or contracts is highly
/// experimental, and subject to change.
///
/// The original harness has stubs which are not applied to this test.
/// This may cause a mismatch of non-deterministic values if the stub
/// creates any non-deterministic value.
/// The execution path may also differ, which can be used to refine the stub
/// logic.

#[test]
fn kani_concrete_playback_c10_w0_kernels_vec_n2_14768630225773118795() {
    let concrete_vals: Vec<Vec<u8>> = vec![
        // 0
        vec![0],
        // 0
        vec![0],
        // 0
        vec![0],
        // 0
        vec![0, 0, 0, 0],
        // 0
        vec![0],
        // 0
        vec![0, 0, 0, 0],
        // 0
        vec![0],
        // 0
        vec![0, 0, 0, 0],
        // 0
        vec![0],
        // 0
        vec![0, 0, 0, 0],
        // 0ul
        vec![0, 0, 0, 0, 0, 0, 0, 0],
        // 0
        vec![0],
        // 0
        vec![0],
    ];
    kani::concrete_playback_run(concrete_vals, c10_w0_kernels_vec_n2);
}

/// Test generated for harness `c10::c10_w0_kernels_vec_n2` 
///
/// Check for `assertion`: ""ts_vmax: every output slot written""
///
/// # Warning
///
/// Concrete playback tests combined with stubs or contracts is highly
/// experimental, and subject to change.
///
/// The original harness has stubs which are not applied to this test.
/// This may cause a mismatch of non-deterministic values if the stub
/// creates any non-deterministic value.
/// The execution path may also differ, which can be used to refine the stub
/// logic.

#[test]
fn kani_concrete_playback_c10_w0_kernels_vec_n2_10316988678155249812() {
    let concrete_vals: Vec<Vec<u8>> = vec![
        // 0
        vec![0],
        // 0
        vec![0],
        // 0
        vec![0],
        // 0
        vec![0, 0, 0, 0],
        // 0
        vec![0],
        // 0
        vec![0, 0, 0, 0],
        // 0
        vec![0],
        // 0
        vec![0, 0, 0, 0],
        // 0
        vec![0],
        // 0
        vec![0, 0, 0, 0],
        // 0ul
        vec![0, 0, 0, 0, 0, 0, 0, 0],
        // 0
        vec![0],
        // 1
        vec![1],
    ];
    kani::concrete_playback_run(concrete_vals, c10_w0_kernels_vec_n2);
}

/// Test generated for harness `c10::c10_w0_kernels_vec_n2` 
///
/// Check for `assertion`: ""ts_vargmin: every output slot written""
///
/// # Warning
///
/// Concrete playback tests combined with stubs or contracts is highly
/// experimental, and subject to change.
///
/// The original harness has stubs which are not applied to this test.
/// This may cause a mismatch of non-deterministic values if the stub
/// creates any non-deterministic value.
/// The execution path may also differ, which can be used to refine the stub
/// logic.

#[test]
fn kani_concrete_playback_c10_w0_kernels_vec_n2_6351729451893733795() {
    let concrete_vals: Vec<Vec<u8>> = vec![
        // 0
        vec![0],
        // 0
        vec![0],
        // 0
        vec![0],
        // 0
        vec![0, 0, 0, 0],
        // 0
        vec![0],
        // 0
        vec![0, 0, 0, 0],
        // 0
        vec![0],
        // 0
        vec![0, 0, 0, 0],
        // 0
        vec![0],
        // 0
        vec![0, 0, 0, 0],
        // 0ul
        vec![0, 0, 0, 0, 0, 0, 0, 0],
        // 0
        vec![0],
        // 2
        vec![2],
    ];
    kani::concrete_playback_run(concrete_vals, c10_w0_kernels_vec_n2);
}

/// Test generated for harness `c10::c10_w0_kernels_vec_n2` 
///
/// Check for `assertion`: ""ts_vminmaxnorm: every output slot written""
///
/// # Warning
///
/// Concrete playback tests combined with stubs or contracts is highly
/// experimental, and subject to change.
///
/// The original harness has stubs which are not applied to this test.
/// This may cause a mismatch of non-deterministic values if the stub
/// creates any non-deterministic value.
/// The execution path may also differ, which can be used to refine the stub
/// logic.

#[test]
fn kani_concrete_playback_c10_w0_kernels_vec_n2_11072589330566598403() {
    let concrete_vals: Vec<Vec<u8>> = vec![
        // 0
        vec![0],
        // 0
        vec![0],
        // 0
        vec![0],
        // 0
        vec![0, 0, 0, 0],
        // 0
        vec![0],
        // 0
        vec![0, 0, 0, 0],
        // 0
        vec![0],
        // 0
        vec![0, 0, 0, 0],
        // 0
        vec![0],
        // 0
        vec![0, 0, 0, 0],
        // 0ul
        vec![0, 0, 0, 0, 0, 0, 0, 0],
        // 0
        vec![0],
        // 4
        vec![4],
    ];
    kani::concrete_playback_run(concrete_vals, c10_w0_kernels_vec_n2);
}

/// Test generated for harness `c10::c10_w0_kernels_vec_n2` 
///
/// Check for `assertion`: ""ts_vregx_resid_mean: every output slot written""
///
/// # Warning
///
/// Concrete playback tests combined with stubs or contracts is highly
/// experimental, and subject to change.
///
/// The original harness has stubs which are not applied to this test.
/// This may cause a mismatch of non-deterministic values if the stub
/// creates any non-deterministic value.
/// The execution path may also differ, which can be used to refine the stub
/// logic.

#[test]
fn kani_concrete_playback_c10_w0_kernels_vec_n2_10238727989955404646() {
    let concrete_vals: Vec<Vec<u8>> = vec![
        // 0
        vec![0],
        // 0
        vec![0],
        // 0
        vec![0],
        // 0
        vec![0, 0, 0, 0],
        // 0
        vec![0],
        // 0
        vec![0, 0, 0, 0],
        // 0
        vec![0],
        // 0
        vec![0, 0, 0, 0],
        // 0
        vec![0],
        // 0
        vec![0, 0, 0, 0],
        // 0ul
        vec![0, 0, 0, 0, 0, 0, 0, 0],
        // 0
        vec![0],
        // 5
        vec![5],
    ];
    kani::concrete_playback_run(concrete_vals, c10_w0_kernels_vec_n2);
}

/// Test generated for harness `c10::c10_w0_kernels_vec_n2` 
///
/// Check for `assertion`: ""ts_vregx_resid_skew: every output slot written""
///
/// # Warning
///
/// Concrete playback tests combined with stubs or contracts is highly
/// experimental, and subject to change.
///
/// The original harness has stubs which are not applied to this test.
/// This may cause a mismatch of non-deterministic values if the stub
/// creates any non-deterministic value.
/// The execution path may also differ, which can be used to refine the stub
/// logic.

#[test]
fn kani_concrete_playback_c10_w0_kernels_vec_n2_17326176231606389295() {
    let concrete_vals: Vec<Vec<u8>> = vec![
        // 1
        vec![1],
        // -1
        vec![255, 255, 255, 255],
        // 1
        vec![1],
        // -1
        vec![255, 255, 255, 255],
        // 1
        vec![1],
        // 1
        vec![1],
        // 1
        vec![1],
        // 1
        vec![1],
        // 4ul
        vec![4, 0, 0, 0, 0, 0, 0, 0],
        // 0
        vec![0],
        // 7
        vec![7],
    ];
    kani::concrete_playback_run(concrete_vals, c10_w0_kernels_vec_n2);
}

/// Test generated for harness `c10::c10_w0_kernels_vec_n2` 
///
/// Check for `assertion`: ""ts_vargmax: every output slot written""
///
/// # Warning
///
/// Concrete playback tests combined with stubs or contracts is highly
/// experimental, and subject to change.
///
/// The original harness has stubs which are not applied to this test.
/// This may cause a mismatch of non-deterministic values if the stub
/// creates any non-deterministic value.
/// The execution path may also differ, which can be used to refine the stub
/// logic.

#[test]
fn kani_concrete_playback_c10_w0_kernels_vec_n2_9461975898164759295() {
    let concrete_vals: Vec<Vec<u8>> = vec![
        // 0
        vec![0],
        // 0
        vec![0],
        // 0
        vec![0],
        // 0
        vec![0, 0, 0, 0],
        // 0
        vec![0],
        // 0
        vec![0, 0, 0, 0],
        // 0
        vec![0],
        // 0
        vec![0, 0, 0, 0],
        // 0
        vec![0],
        // 0
        vec![0, 0, 0, 0],
        // 0ul
        vec![0, 0, 0, 0, 0, 0, 0, 0],
        // 0
        vec![0],
        // 3
        vec![3],
    ];
    kani::concrete_playback_run(concrete_vals, c10_w0_kernels_vec_n2);
}

/// Test generated for harness `c10::c10_w0_kernels_vec_n2` 
///
/// Check for `assertion`: ""ts_vregx_resid_std: every output slot written""
///
/// # Warning
///
/// Concrete playback tests combined with stubs or contracts is highly
/// experimental, and subject to change.
///
/// The original harness has stubs which are not applied to this test.
/// This may cause a mismatch of non-deterministic values if the stub
/// creates any non-deterministic value.
/// The execution path may also differ, which can be used to refine the stub
/// logic.

#[test]
fn kani_concrete_playback_c10_w0_kernels_vec_n2_5395590413393445685() {
    let concrete_vals: Vec<Vec<u8>> = vec![
        // 0
        vec![0],
        // 0
        vec![0],
        // 0
        vec![0],
        // 0
        vec![0, 0, 0, 0],
        // 0
        vec![0],
        // 0
        vec![0, 0, 0, 0],
        // 0
        vec![0],
        // 0
        vec![0, 0, 0, 0],
        // 0
        vec![0],
        // 0
        vec![0, 0, 0, 0],
        // 0ul
        vec![0, 0, 0, 0, 0, 0, 0, 0],
        // 0
        vec![0],
        // 6
        vec![6],
    ];
    kani::concrete_playback_run(concrete_vals, c10_w0_kernels_vec_n2);
}
