// counterexamples for harness c10::c10_w0_kernels_vec_n2 (property C10); replay: ./check C10 --replay <this file>
// features: c10
#![allow(unused_imports)]
use crate::c10::*;

/// Test generated for harness `c10::c10_w0_kernels_vec_n2` 
///
/// Check for `assertion`: ""ts_vmin: every output slot written""
///
/// # Warning
///
/// Concrete playback tests combined with stubs or contracts is highly
/// experimental, and subject to change.
///
/// The original harness has stubs which are not applied to this test.
/// This may cause a mismatch of non-deterministic values if the stub
/// creates any non-deterministic value.
/// The execution path may also differ, which can be used to refine the stub
/// logic.

#[test]
fn kani_concrete_playback_c10_w0_kernels_vec_n2_1666748175245777184() {
    let concrete_vals: Vec<Vec<u8>> = vec![
        // 0
        vec![0],
        // 0
        vec![0],
        // 0
        vec![0],
        // 0
        vec![0],
        // 0
        vec![0],
        // 0
        vec![0],
        // 0ul
        vec![0, 0, 0, 0, 0, 0, 0, 0],
        // 0
        vec![0],
        // 0
        vec![0],
    ];
    kani::concrete_playback_run(concrete_vals, c10_w0_kernels_vec_n2);
}

/// Test generated for harness `c10::c10_w0_kernels_vec_n2` 
///
/// Check for `assertion`: ""ts_vminmaxnorm: every output slot written""
///
/// # Warning
///
/// Concrete playback tests combined with stubs or contracts is highly
/// experimental, and subject to change.
///
/// The original harness has stubs which are not applied to this test.
/// This may cause a mismatch of non-deterministic values if the stub
/// creates any non-deterministic value.
/// The execution path may also differ, which can be used to refine the stub
/// logic.

#[test]
fn kani_concrete_playback_c10_w0_kernels_vec_n2_293579557810759936() {
    let concrete_vals: Vec<Vec<u8>> = vec![
        // 0
        vec![0],
        // 0
        vec![0],
        // 0
        vec![0],
        // 0
        vec![0],
        // 0
        vec![0],
        // 0
        vec![0],
        // 0ul
        vec![0, 0, 0, 0, 0, 0, 0, 0],
        // 0
        vec![0],
        // 5
        vec![5],
    ];
    kani::concrete_playback_run(concrete_vals, c10_w0_kernels_vec_n2);
}

/// Test generated for harness `c10::c10_w0_kernels_vec_n2` 
///
/// Check for `assertion`: ""ts_vregx_resid_skew: every output slot written""
///
/// # Warning
///
/// Concrete playback tests combined with stubs or contracts is highly
/// experimental, and subject to change.
///
/// The original harness has stubs which are not applied to this test.
/// This may cause a mismatch of non-deterministic values if the stub
/// creates any non-deterministic value.
/// The execution path may also differ, which can be used to refine the stub
/// logic.

#[test]
fn kani_concrete_playback_c10_w0_kernels_vec_n2_4628911148827062515() {
    let concrete_vals: Vec<Vec<u8>> = vec![
        // 1
        vec![1],
        // -1
        vec![255, 255, 255, 255],
        // 1
        vec![1],
        // -1
        vec![255, 255, 255, 255],
        // 1
        vec![1],
        // 1
        vec![1],
        // 1
        vec![1],
        // 1
        vec![1],
        // 4ul
        vec![4, 0, 0, 0, 0, 0, 0, 0],
        // 0
        vec![0],
        // 8
        vec![8],
    ];
    kani::concrete_playback_run(concrete_vals, c10_w0_kernels_vec_n2);
}

/// Test generated for harness `c10::c10_w0_kernels_vec_n2` 
///
/// Check for `assertion`: ""ts_vregx_resid_mean: every output slot written""
///
/// # Warning
///
/// Concrete playback tests combined with stubs or contracts is highly
/// experimental, and subject to change.
///
/// The original harness has stubs which are not applied to this test.
/// This may cause a mismatch of non-deterministic values if the stub
/// creates any non-deterministic value.
/// The execution path may also differ, which can be used to refine the stub
/// logic.

#[test]
fn kani_concrete_playback_c10_w0_kernels_vec_n2_4624583475394349740() {
    let concrete_vals: Vec<Vec<u8>> = vec![
        // 0
        vec![0],
        // 0
        vec![0],
        // 0
        vec![0],
        // 0
        vec![0],
        // 0
        vec![0],
        // 0
        vec![0],
        // 0ul
        vec![0, 0, 0, 0, 0, 0, 0, 0],
        // 0
        vec![0],
        // 6
        vec![6],
    ];
    kani::concrete_playback_run(concrete_vals, c10_w0_kernels_vec_n2);
}

/// Test generated for harness `c10::c10_w0_kernels_vec_n2` 
///
/// Check for `assertion`: ""ts_vmax: every output slot written""
///
/// # Warning
///
/// Concrete playback tests combined with stubs or contracts is highly
/// experimental, and subject to change.
///
/// The original harness has stubs which are not applied to this test.
/// This may cause a mismatch of non-deterministic values if the stub
/// creates any non-deterministic value.
/// The execution path may also differ, which can be used to refine the stub
/// logic.

#[test]
fn kani_concrete_playback_c10_w0_kernels_vec_n2_11789063242589858262() {
    let concrete_vals: Vec<Vec<u8>> = vec![
        // 0
        vec![0],
        // 0
        vec![0],
        // 0
        vec![0],
        // 0
        vec![0],
        // 0
        vec![0],
        // 0
        vec![0],
        // 0ul
        vec![0, 0, 0, 0, 0, 0, 0, 0],
        // 0
        vec![0],
        // 1
        vec![1],
    ];
    kani::concrete_playback_run(concrete_vals, c10_w0_kernels_vec_n2);
}

/// Test generated for harness `c10::c10_w0_kernels_vec_n2` 
///
/// Check for `assertion`: ""ts_vargmin: every output slot written""
///
/// # Warning
///
/// Concrete playback tests combined with stubs or contracts is highly
/// experimental, and subject to change.
///
/// The original harness has stubs which are not applied to this test.
/// This may cause a mismatch of non-deterministic values if the stub
/// creates any non-deterministic value.
/// The execution path may also differ, which can be used to refine the stub
/// logic.

#[test]
fn kani_concrete_playback_c10_w0_kernels_vec_n2_18119097354352582048() {
    let concrete_vals: Vec<Vec<u8>> = vec![
        // 0
        vec![0],
        // 0
        vec![0],
        // 0
        vec![0],
        // 0
        vec![0],
        // 0
        vec![0],
        // 0
        vec![0],
        // 0ul
        vec![0, 0, 0, 0, 0, 0, 0, 0],
        // 0
        vec![0],
        // 2
        vec![2],
    ];
    kani::concrete_playback_run(concrete_vals, c10_w0_kernels_vec_n2);
}

/// Test generated for harness `c10::c10_w0_kernels_vec_n2` 
///
/// Check for `assertion`: ""ts_vregx_resid_std: every output slot written""
///
/// # Warning
///
/// Concrete playback tests combined with stubs or contracts is highly
/// experimental, and subject to change.
///
/// The original harness has stubs which are not applied to this test.
/// This may cause a mismatch of non-deterministic values if the stub
/// creates any non-deterministic value.
/// The execution path may also differ, which can be used to refine the stub
/// logic.

#[test]
fn kani_concrete_playback_c10_w0_kernels_vec_n2_16585028000495761990() {
    let concrete_vals: Vec<Vec<u8>> = vec![
        // 0
        vec![0],
        // 0
        vec![0],
        // 0
        vec![0],
        // 0
        vec![0],
        // 0
        vec![0],
        // 0
        vec![0],
        // 0ul
        vec![0, 0, 0, 0, 0, 0, 0, 0],
        // 0
        vec![0],
        // 7
        vec![7],
    ];
    kani::concrete_playback_run(concrete_vals, c10_w0_kernels_vec_n2);
}

/// Test generated for harness `c10::c10_w0_kernels_vec_n2` 
///
/// Check for `assertion`: ""ts_vrank: every output slot written""
///
/// # Warning
///
/// Concrete playback tests combined with stubs or contracts is highly
/// experimental, and subject to change.
///
/// The original harness has stubs which are not applied to this test.
/// This may cause a mismatch of non-deterministic values if the stub
/// creates any non-deterministic value.
/// The execution path may also differ, which can be used to refine the stub
/// logic.

#[test]
fn kani_concrete_playback_c10_w0_kernels_vec_n2_17120887310259896199() {
    let concrete_vals: Vec<Vec<u8>> = vec![
        // 0
        vec![0],
        // 0
        vec![0],
        // 0
        vec![0],
        // 0
        vec![0],
        // 0
        vec![0],
        // 0
        vec![0],
        // 0ul
        vec![0, 0, 0, 0, 0, 0, 0, 0],
        // 0
        vec![0],
        // 4
        vec![4],
        // 0
        vec![0],
        // 0
        vec![0],
    ];
    kani::concrete_playback_run(concrete_vals, c10_w0_kernels_vec_n2);
}

/// Test generated for harness `c10::c10_w0_kernels_vec_n2` 
///
/// Check for `assertion`: ""ts_vargmax: every output slot written""
///
/// # Warning
///
/// Concrete playback tests combined with stubs or contracts is highly
/// experimental, and subject to change.
///
/// The original harness has stubs which are not applied to this test.
/// This may cause a mismatch of non-deterministic values if the stub
/// creates any non-deterministic value.
/// The execution path may also differ, which can be used to refine the stub
/// logic.

#[test]
fn kani_concrete_playback_c10_w0_kernels_vec_n2_2996444275664490113() {
    let concrete_vals: Vec<Vec<u8>> = vec![
        // 0
        vec![0],
        // 0
        vec![0],
        // 0
        vec![0],
        // 0
        vec![0],
        // 0
        vec![0],
        // 0
        vec![0],
        // 0ul
        vec![0, 0, 0, 0, 0, 0, 0, 0],
        // 0
        vec![0],
        // 3
        vec![3],
    ];
    kani::concrete_playback_run(concrete_vals, c10_w0_kernels_vec_n2);
}
