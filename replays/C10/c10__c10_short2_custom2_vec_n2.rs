// counterexamples for harness c10::c10_short2_custom2_vec_n2 (property C10); replay: ./check C10 --replay <this file>
// features: c10
#![allow(unused_imports)]
use crate::c10::*;

/// Test generated for harness `c10::c10_short2_custom2_vec_n2` 
///
/// Check for `safety_check`: "dereference failure: pointer invalid"
///
/// # Warning
///
/// Concrete playback tests combined with stubs or contracts is highly
/// experimental, and subject to change.
///
/// The original harness has stubs which are not applied to this test.
/// This may cause a mismatch of non-deterministic values if the stub
/// creates any non-deterministic value.
/// The execution path may also differ, which can be used to refine the stub
/// logic.

#[test]
fn kani_concrete_playback_c10_short2_custom2_vec_n2_10508443485585615273() {
    let concrete_vals: Vec<Vec<u8>> = vec![
        // 0
        vec![0, 0, 0, 0],
        // 0
        vec![0, 0, 0, 0],
        // 0
        vec![0, 0, 0, 0],
        // 1ul
        vec![1, 0, 0, 0, 0, 0, 0, 0],
        // 0
        vec![0],
    ];
    kani::concrete_playback_run(concrete_vals, c10_short2_custom2_vec_n2);
}
