// counterexamples for harness c10::c10_w0_out_vec_n2 (property C10); replay: ./check C10 --replay <this file>
// features: c10
#![allow(unused_imports)]
use crate::c10::*;

/// Test generated for harness `c10::c10_w0_out_vec_n2` 
///
/// Check for `assertion`: ""rolling_apply_idx out: every output slot written before assume_init""
///
/// # Warning
///
/// Concrete playback tests combined with stubs or contracts is highly
/// experimental, and subject to change.
///
/// The original harness has stubs which are not applied to this test.
/// This may cause a mismatch of non-deterministic values if the stub
/// creates any non-deterministic value.
/// The execution path may also differ, which can be used to refine the stub
/// logic.

#[test]
fn kani_concrete_playback_c10_w0_out_vec_n2_4562246288071666034() {
    let concrete_vals: Vec<Vec<u8>> = vec![
        // 0
        vec![0, 0, 0, 0],
        // 0
        vec![0, 0, 0, 0],
        // 0
        vec![0, 0, 0, 0],
        // 0
        vec![0, 0, 0, 0],
        // 1
        vec![1],
    ];
    kani::concrete_playback_run(concrete_vals, c10_w0_out_vec_n2);
}

/// Test generated for harness `c10::c10_w0_out_vec_n2` 
///
/// Check for `assertion`: ""rolling2_apply_idx out: every output slot written before assume_init""
///
/// # Warning
///
/// Concrete playback tests combined with stubs or contracts is highly
/// experimental, and subject to change.
///
/// The original harness has stubs which are not applied to this test.
/// This may cause a mismatch of non-deterministic values if the stub
/// creates any non-deterministic value.
/// The execution path may also differ, which can be used to refine the stub
/// logic.

#[test]
fn kani_concrete_playback_c10_w0_out_vec_n2_10512371621843160882() {
    let concrete_vals: Vec<Vec<u8>> = vec![
        // 0
        vec![0, 0, 0, 0],
        // 0
        vec![0, 0, 0, 0],
        // 0
        vec![0, 0, 0, 0],
        // 0
        vec![0, 0, 0, 0],
        // 3
        vec![3],
    ];
    kani::concrete_playback_run(concrete_vals, c10_w0_out_vec_n2);
}

/// Test generated for harness `c10::c10_w0_out_vec_n2` 
///
/// Check for `assertion`: ""rolling_custom out: every output slot written before assume_init""
///
/// # Warning
///
/// Concrete playback tests combined with stubs or contracts is highly
/// experimental, and subject to change.
///
/// The original harness has stubs which are not applied to this test.
/// This may cause a mismatch of non-deterministic values if the stub
/// creates any non-deterministic value.
/// The execution path may also differ, which can be used to refine the stub
/// logic.

#[test]
fn kani_concrete_playback_c10_w0_out_vec_n2_812950569589883745() {
    let concrete_vals: Vec<Vec<u8>> = vec![
        // 0
        vec![0, 0, 0, 0],
        // 0
        vec![0, 0, 0, 0],
        // 0
        vec![0, 0, 0, 0],
        // 0
        vec![0, 0, 0, 0],
        // 4
        vec![4],
    ];
    kani::concrete_playback_run(concrete_vals, c10_w0_out_vec_n2);
}

/// Test generated for harness `c10::c10_w0_out_vec_n2` 
///
/// Check for `assertion`: ""rolling2_apply out: every output slot written before assume_init""
///
/// # Warning
///
/// Concrete playback tests combined with stubs or contracts is highly
/// experimental, and subject to change.
///
/// The original harness has stubs which are not applied to this test.
/// This may cause a mismatch of non-deterministic values if the stub
/// creates any non-deterministic value.
/// The execution path may also differ, which can be used to refine the stub
/// logic.

#[test]
fn kani_concrete_playback_c10_w0_out_vec_n2_15802252738239710638() {
    let concrete_vals: Vec<Vec<u8>> = vec![
        // 0
        vec![0, 0, 0, 0],
        // 0
        vec![0, 0, 0, 0],
        // 0
        vec![0, 0, 0, 0],
        // 0
        vec![0, 0, 0, 0],
        // 2
        vec![2],
    ];
    kani::concrete_playback_run(concrete_vals, c10_w0_out_vec_n2);
}

/// Test generated for harness `c10::c10_w0_out_vec_n2` 
///
/// Check for `assertion`: ""rolling_apply out: every output slot written before assume_init""
///
/// # Warning
///
/// Concrete playback tests combined with stubs or contracts is highly
/// experimental, and subject to change.
///
/// The original harness has stubs which are not applied to this test.
/// This may cause a mismatch of non-deterministic values if the stub
/// creates any non-deterministic value.
/// The execution path may also differ, which can be used to refine the stub
/// logic.

#[test]
fn kani_concrete_playback_c10_w0_out_vec_n2_2200320869745469424() {
    let concrete_vals: Vec<Vec<u8>> = vec![
        // 0
        vec![0, 0, 0, 0],
        // 0
        vec![0, 0, 0, 0],
        // 0
        vec![0, 0, 0, 0],
        // 0
        vec![0, 0, 0, 0],
        // 0
        vec![0],
    ];
    kani::concrete_playback_run(concrete_vals, c10_w0_out_vec_n2);
}
