// counterexamples for harness c06::c06_lag_vdiff_fill_f64_n2 (property C06); replay: ./check C06 --replay <this file>
// features: c06
#![allow(unused_imports)]
use crate::c06::*;

/// Test generated for harness `c06::c06_lag_vdiff_fill_f64_n2` 
///
/// Check for `assertion`: ""lag: item i over the prefix is bit-for-bit item i over the whole series""
///
/// # Warning
///
/// Concrete playback tests combined with stubs or contracts is highly
/// experimental, and subject to change.
///
/// The original harness has stubs which are not applied to this test.
/// This may cause a mismatch of non-deterministic values if the stub
/// creates any non-deterministic value.
/// The execution path may also differ, which can be used to refine the stub
/// logic.

#[test]
fn kani_concrete_playback_c06_lag_vdiff_fill_f64_n2_6294073362931293891() {
    let concrete_vals: Vec<Vec<u8>> = vec![
        // 0
        vec![0],
        // 0
        vec![0, 0, 0, 0],
        // 0
        vec![0],
        // 0
        vec![0, 0, 0, 0],
        // 1
        vec![1, 0, 0, 0],
        // 1
        vec![1, 0, 0, 0],
    ];
    kani::concrete_playback_run(concrete_vals, c06_lag_vdiff_fill_f64_n2);
}

/// Test generated for harness `c06::c06_lag_vdiff_fill_f64_n2` 
///
/// Check for `cover`: "prefix not longer than the lag, whole series longer"
///
/// # Warning
///
/// Concrete playback tests combined with stubs or contracts is highly
/// experimental, and subject to change.
///
/// The original harness has stubs which are not applied to this test.
/// This may cause a mismatch of non-deterministic values if the stub
/// creates any non-deterministic value.
/// The execution path may also differ, which can be used to refine the stub
/// logic.

#[test]
fn kani_concrete_playback_c06_lag_vdiff_fill_f64_n2_12604707251630543488() {
    let concrete_vals: Vec<Vec<u8>> = vec![
        // 0
        vec![0],
        // 0
        vec![0, 0, 0, 0],
        // 0
        vec![0],
        // 0
        vec![0, 0, 0, 0],
        // 1
        vec![1, 0, 0, 0],
        // 0
        vec![0, 0, 0, 0],
    ];
    kani::concrete_playback_run(concrete_vals, c06_lag_vdiff_fill_f64_n2);
}
