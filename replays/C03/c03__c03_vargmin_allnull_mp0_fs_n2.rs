// counterexamples for harness c03::c03_vargmin_allnull_mp0_fs_n2 (property C03); replay: ./check C03 --replay <this file>
// features: c03,thorough
#![allow(unused_imports)]
use crate::c03::*;

/// Test generated for harness `c03::c03_vargmin_allnull_mp0_fs_n2` 
///
/// Check for `assertion`: ""varg: an all-null window has no arg-extreme (null) even with min_periods 0""
///
/// # Warning
///
/// Concrete playback tests combined with stubs or contracts is highly
/// experimental, and subject to change.
///
/// The original harness has stubs which are not applied to this test.
/// This may cause a mismatch of non-deterministic values if the stub
/// creates any non-deterministic value.
/// The execution path may also differ, which can be used to refine the stub
/// logic.

#[test]
fn kani_concrete_playback_c03_vargmin_allnull_mp0_fs_n2_15084740905626778060() {
    let concrete_vals: Vec<Vec<u8>> = vec![
        // 0
        vec![0],
        // 1
        vec![1],
        // 0
        vec![0, 0, 0, 0],
        // -16777216
        vec![0, 0, 0, 255],
        // 2ul
        vec![2, 0, 0, 0, 0, 0, 0, 0],
        // 1
        vec![1],
        // 0ul
        vec![0, 0, 0, 0, 0, 0, 0, 0],
    ];
    kani::concrete_playback_run(concrete_vals, c03_vargmin_allnull_mp0_fs_n2);
}
