// counterexamples for harness c03::c03_minmaxnorm_oa_fullrange_n2 (property C03); replay: ./check C03 --replay <this file>
// features: c03
#![allow(unused_imports)]
use crate::c03::*;

/// Test generated for harness `c03::c03_minmaxnorm_oa_fullrange_n2` 
///
/// Check for `assertion`: "attempt to subtract with overflow"
///
/// # Warning
///
/// Concrete playback tests combined with stubs or contracts is highly
/// experimental, and subject to change.
///
/// The original harness has stubs which are not applied to this test.
/// This may cause a mismatch of non-deterministic values if the stub
/// creates any non-deterministic value.
/// The execution path may also differ, which can be used to refine the stub
/// logic.

#[test]
fn kani_concrete_playback_c03_minmaxnorm_oa_fullrange_n2_18249404861510732467() {
    let concrete_vals: Vec<Vec<u8>> = vec![
        // 1
        vec![1],
        // -2147483648
        vec![0, 0, 0, 128],
        // 1
        vec![1],
        // 1
        vec![1, 0, 0, 0],
        // -1
        vec![255, 255, 255, 255],
        // 3ul
        vec![3, 0, 0, 0, 0, 0, 0, 0],
        // 1
        vec![1],
        // 2ul
        vec![2, 0, 0, 0, 0, 0, 0, 0],
    ];
    kani::concrete_playback_run(concrete_vals, c03_minmaxnorm_oa_fullrange_n2);
}

/// Test generated for harness `c03::c03_minmaxnorm_oa_fullrange_n2` 
///
/// Check for `cover`: "kernel returned"
///
/// # Warning
///
/// Concrete playback tests combined with stubs or contracts is highly
/// experimental, and subject to change.
///
/// The original harness has stubs which are not applied to this test.
/// This may cause a mismatch of non-deterministic values if the stub
/// creates any non-deterministic value.
/// The execution path may also differ, which can be used to refine the stub
/// logic.

#[test]
fn kani_concrete_playback_c03_minmaxnorm_oa_fullrange_n2_925696438188418012() {
    let concrete_vals: Vec<Vec<u8>> = vec![
        // 0
        vec![0],
        // 0
        vec![0],
        // 0
        vec![0, 0, 0, 0],
        // 1ul
        vec![1, 0, 0, 0, 0, 0, 0, 0],
        // 0
        vec![0],
        // 0ul
        vec![0, 0, 0, 0, 0, 0, 0, 0],
    ];
    kani::concrete_playback_run(concrete_vals, c03_minmaxnorm_oa_fullrange_n2);
}
