// counterexamples for harness c03::c03_vargmax_allnull_mp0_os_n1 (property C03); replay: ./check C03 --replay <this file>
// features: c03
#![allow(unused_imports)]
use crate::c03::*;

/// Test generated for harness `c03::c03_vargmax_allnull_mp0_os_n1` 
///
/// Check for `assertion`: ""varg: an all-null window has no arg-extreme (null) even with min_periods 0""
///
/// # Warning
///
/// Concrete playback tests combined with stubs or contracts is highly
/// experimental, and subject to change.
///
/// The original harness has stubs which are not applied to this test.
/// This may cause a mismatch of non-deterministic values if the stub
/// creates any non-deterministic value.
/// The execution path may also differ, which can be used to refine the stub
/// logic.

#[test]
fn kani_concrete_playback_c03_vargmax_allnull_mp0_os_n1_1967254028242357692() {
    let concrete_vals: Vec<Vec<u8>> = vec![
        // 0
        vec![0],
        // 0
        vec![0, 0, 0, 0],
        // 1ul
        vec![1, 0, 0, 0, 0, 0, 0, 0],
        // 0
        vec![0],
        // 0ul
        vec![0, 0, 0, 0, 0, 0, 0, 0],
    ];
    kani::concrete_playback_run(concrete_vals, c03_vargmax_allnull_mp0_os_n1);
}
