// counterexamples for harness c07::c07_tas_ndrev_n2 (property C07); replay: ./check C07 --replay <this file>
// features: c07
#![allow(unused_imports)]
use crate::c07::*;

/// Test generated for harness `c07::c07_tas_ndrev_n2` 
///
/// Check for `assertion`: ""try_as_slice() equals the logical sequence""

#[test]
fn kani_concrete_playback_c07_tas_ndrev_n2_8325694006669739737() {
    let concrete_vals: Vec<Vec<u8>> = vec![
        // 0
        vec![0, 0, 0, 0],
        // -2147483648
        vec![0, 0, 0, 128],
    ];
    kani::concrete_playback_run(concrete_vals, c07_tas_ndrev_n2);
}

/// Test generated for harness `c07::c07_tas_ndrev_n2` 
///
/// Check for `cover`: "try_as_slice offered a slice"

#[test]
fn kani_concrete_playback_c07_tas_ndrev_n2_1055349795834961964() {
    let concrete_vals: Vec<Vec<u8>> = vec![
        // 0
        vec![0, 0, 0, 0],
        // 0
        vec![0, 0, 0, 0],
    ];
    kani::concrete_playback_run(concrete_vals, c07_tas_ndrev_n2);
}
