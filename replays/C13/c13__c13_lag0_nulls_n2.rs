// counterexamples for harness c13::c13_lag0_nulls_n2 (property C13); replay: ./check C13 --replay <this file>
// features: c13
#![allow(unused_imports)]
use crate::c13::*;

/// Test generated for harness `c13::c13_lag0_nulls_n2` 
///
/// Check for `cover`: "interesting region of the parameter space reached and passed"

#[test]
fn kani_concrete_playback_c13_lag0_nulls_n2_6472515068011184844() {
    let concrete_vals: Vec<Vec<u8>> = vec![
        // 0
        vec![0],
        // -1
        vec![255, 255, 255, 255],
        // 0
        vec![0],
        // -2
        vec![254, 255, 255, 255],
        // 0
        vec![0],
    ];
    kani::concrete_playback_run(concrete_vals, c13_lag0_nulls_n2);
}

/// Test generated for harness `c13::c13_lag0_nulls_n2` 
///
/// Check for `assertion`: ""vdiff at lag 0 is null where the element is null""

#[test]
fn kani_concrete_playback_c13_lag0_nulls_n2_7949941810342936432() {
    let concrete_vals: Vec<Vec<u8>> = vec![
        // 1
        vec![1],
        // 1
        vec![1],
        // 1
        vec![1],
    ];
    kani::concrete_playback_run(concrete_vals, c13_lag0_nulls_n2);
}

/// Test generated for harness `c13::c13_lag0_nulls_n2` 
///
/// Check for `assertion`: ""vpct_change at lag 0 is null where the element is null or zero""

#[test]
fn kani_concrete_playback_c13_lag0_nulls_n2_11747363361580893354() {
    let concrete_vals: Vec<Vec<u8>> = vec![
        // 0
        vec![0],
        // 0
        vec![0, 0, 0, 0],
        // 0
        vec![0],
        // 0
        vec![0, 0, 0, 0],
        // 0
        vec![0],
    ];
    kani::concrete_playback_run(concrete_vals, c13_lag0_nulls_n2);
}
