// counterexamples for harness c13::c13_vdiff_poslag_fill_n2 (property C13); replay: ./check C13 --replay <this file>
// features: c13
#![allow(unused_imports)]
use crate::c13::*;

/// Test generated for harness `c13::c13_vdiff_poslag_fill_n2` 
///
/// Check for `assertion`: ""vdiff: the places vacated by a positive lag hold the fill value""

#[test]
fn kani_concrete_playback_c13_vdiff_poslag_fill_n2_16009076961898362121() {
    let concrete_vals: Vec<Vec<u8>> = vec![
        // 1
        vec![1, 0, 0, 0],
        // 1
        vec![1],
        // -14
        vec![242, 255, 255, 255],
        // -7
        vec![249, 255, 255, 255],
        // -71
        vec![185, 255, 255, 255],
    ];
    kani::concrete_playback_run(concrete_vals, c13_vdiff_poslag_fill_n2);
}

/// Test generated for harness `c13::c13_vdiff_poslag_fill_n2` 
///
/// Check for `assertion`: ""vdiff (floats): the places vacated by a positive lag hold the non-null fill value""

#[test]
fn kani_concrete_playback_c13_vdiff_poslag_fill_n2_1585467241894844075() {
    let concrete_vals: Vec<Vec<u8>> = vec![
        // 1
        vec![1, 0, 0, 0],
        // 0
        vec![0],
        // 1
        vec![1],
        // 0
        vec![0],
        // -2
        vec![254, 255, 255, 255],
        // 2
        vec![2, 0, 0, 0],
    ];
    kani::concrete_playback_run(concrete_vals, c13_vdiff_poslag_fill_n2);
}

/// Test generated for harness `c13::c13_vdiff_poslag_fill_n2` 
///
/// Check for `cover`: "interesting region of the parameter space reached and passed"

#[test]
fn kani_concrete_playback_c13_vdiff_poslag_fill_n2_7846696104097347559() {
    let concrete_vals: Vec<Vec<u8>> = vec![
        // 3
        vec![3, 0, 0, 0],
        // 1
        vec![1],
        // -1
        vec![255, 255, 255, 255],
        // -1
        vec![255, 255, 255, 255],
        // 1
        vec![1, 0, 0, 0],
    ];
    kani::concrete_playback_run(concrete_vals, c13_vdiff_poslag_fill_n2);
}
