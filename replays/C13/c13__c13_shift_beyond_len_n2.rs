// counterexamples for harness c13::c13_shift_beyond_len_n2 (property C13); replay: ./check C13 --replay <this file>
// features: c13
#![allow(unused_imports)]
use crate::c13::*;

/// Test generated for harness `c13::c13_shift_beyond_len_n2` 
///
/// Check for `cover`: "beyond: n < -len"

#[test]
fn kani_concrete_playback_c13_shift_beyond_len_n2_1882465063930593020() {
    let concrete_vals: Vec<Vec<u8>> = vec![
        // -1
        vec![255, 255, 255, 255],
        // -1
        vec![255, 255, 255, 255],
        // -3
        vec![253, 255, 255, 255],
    ];
    kani::concrete_playback_run(concrete_vals, c13_shift_beyond_len_n2);
}

/// Test generated for harness `c13::c13_shift_beyond_len_n2` 
///
/// Check for `cover`: "beyond: n > len"

#[test]
fn kani_concrete_playback_c13_shift_beyond_len_n2_5847252093550773658() {
    let concrete_vals: Vec<Vec<u8>> = vec![
        // -1
        vec![255, 255, 255, 255],
        // -1
        vec![255, 255, 255, 255],
        // 4
        vec![4, 0, 0, 0],
    ];
    kani::concrete_playback_run(concrete_vals, c13_shift_beyond_len_n2);
}

/// Test generated for harness `c13::c13_shift_beyond_len_n2` 
///
/// Check for `assertion`: ""the output has no more elements than the input""

#[test]
fn kani_concrete_playback_c13_shift_beyond_len_n2_16772874694526844605() {
    let concrete_vals: Vec<Vec<u8>> = vec![
        // -1
        vec![255, 255, 255, 255],
        // -1
        vec![255, 255, 255, 255],
        // -5
        vec![251, 255, 255, 255],
        // -2
        vec![254, 255, 255, 255],
    ];
    kani::concrete_playback_run(concrete_vals, c13_shift_beyond_len_n2);
}

/// Test generated for harness `c13::c13_shift_beyond_len_n2` 
///
/// Check for `assertion`: "attempt to subtract with overflow"

#[test]
fn kani_concrete_playback_c13_shift_beyond_len_n2_14545833302950722920() {
    let concrete_vals: Vec<Vec<u8>> = vec![
        // -1
        vec![255, 255, 255, 255],
        // -1
        vec![255, 255, 255, 255],
        // 4
        vec![4, 0, 0, 0],
        // -2
        vec![254, 255, 255, 255],
    ];
    kani::concrete_playback_run(concrete_vals, c13_shift_beyond_len_n2);
}
